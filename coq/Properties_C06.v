(* C06 - Alignments survive a write/read round trip in every format.
   Statements only; proofs in FormatsProofs.v and FormatsProofs2.v.
   Proved: the shared reader core for all three formats (any cutting of a row into lines rebuilds
   the row), line splitting, and the complete round trip at file level for FASTA, Clustal and MSF:
   kalign_read_input (incl. line reading and format sniffing) applied to the bytes the writer
   produced returns records whose names and gapped rows are the written ones - any number of rows,
   any width (multiples of 60 included), names of 1..200 bytes.  That the writer and reader models
   are msa_io.c is the byte-exact correspondence checked on every run, together with round-trip
   runs over all nine ordered format pairs (DESIGN C06). *)
From KV Require Import Base Params Sort Detect Weave WeaveProofs Cmp Formats FormatsProofs FormatsProofs2.
From Coq Require Import String.
Import Coq.Init.Datatypes.
Local Open Scope list_scope.
Local Open Scope Z_scope.

(* the reader core shared by read_fasta, read_clu and read_msf: however a gapped row is cut into
   line pieces, feeding the pieces rebuilds the row (letters kept with their case, punctuation as
   gaps in the same places) and the residues are exactly the letters *)
Theorem C06_reader_core : forall chunks r, rec_wf r ->
  let r' := fold_left feed_line chunks r in
  rec_wf r' /\ row_of r' = row_of r ++ norm (List.concat chunks) /\ rr_name r' = rr_name r /\
  rr_res r' = rr_res r ++ filter isalpha (List.concat chunks).
Proof. exact feed_chunks_row. Qed.
Print Assumptions C06_reader_core.

Theorem C06_rows_of_letters_and_dashes_are_fixed_points : forall l, Forall rowchar l -> norm l = l.
Proof. exact norm_rowchars. Qed.
Print Assumptions C06_rows_of_letters_and_dashes_are_fixed_points.

(* read_file_stdin inverts the writers' line output *)
Theorem C06_lines_roundtrip : forall ls, Forall clean_line ls -> read_lines (unlines ls) = ls.
Proof. exact read_lines_unlines. Qed.
Print Assumptions C06_lines_roundtrip.

(* FASTA, complete: kalign_read_input on the bytes write_msa_fasta produced returns records whose
   names and gapped rows are the written ones - any number of rows, any width (multiples of 60
   included), any names without control bytes, blanks, '!' and ':' *)
Theorem C06_fasta_roundtrip : forall rows,
  rows <> [] -> Forall (fun nr => name_ok (fst nr) /\ good_row (snd nr)) rows ->
  exists h, read_one (write_fasta rows) = Some (Some (mkM (map rec_of rows) h)) /\
            rows_of (map rec_of rows) = rows.
Proof.
  intros rows Hne Hall. destruct (read_one_written_fasta rows Hne Hall) as (h & H).
  exists h. split; [exact H|]. apply rows_of_read_back.
  eapply Forall_impl; [|exact Hall]. simpl. tauto.
Qed.
Print Assumptions C06_fasta_roundtrip.

(* Clustal, complete.  [version] is the compile-time version string (no control byte). *)
Theorem C06_clustal_roundtrip : forall version rows alnlen,
  clean_line version -> rows <> [] ->
  Forall (fun nr => name_ok (fst nr) /\ good_row (snd nr) /\ length (snd nr) = alnlen /\ (length (fst nr) <= 200)%nat) rows ->
  (1 <= alnlen)%nat ->
  exists m, read_one (write_clu version alnlen rows) = Some (Some m) /\ rows_of (m_recs m) = rows.
Proof.
  intros version rows alnlen Hv Hne Hall Hlen.
  destruct (read_one_written_clu version rows alnlen Hv Hne Hall Hlen) as (m & H1 & H2 & _). exists m. split; assumption.
Qed.
Print Assumptions C06_clustal_roundtrip.

(* MSF, complete.  Names must not contain '/' (a "//" would end the header).  The title line carries two free
   texts - the output file's base name and a date: the statement needs that line to contain no control byte, no
   "//", no "Name:" and no Clustal marker ([title_inert], [hint_clu]); all four are decidable on the written line,
   and hold for kalign's date format and any base name without those substrings (Example below). *)
Theorem C06_msf_roundtrip : forall base date protein rows alnlen,
  title_inert (msf_title base date protein alnlen rows) -> hint_clu (msf_title base date protein alnlen rows) = false ->
  Forall (fun nr => name_ok (fst nr) /\ good_row (snd nr) /\ length (snd nr) = alnlen /\ (length (fst nr) <= 200)%nat /\ ~ In 47 (fst nr)) rows ->
  (1 <= alnlen)%nat ->
  exists m, read_one (write_msf base date protein alnlen rows) = Some (Some m) /\ rows_of (m_recs m) = rows.
Proof.
  intros base date protein rows alnlen Ht Hc Hall Hlen.
  destruct (msf_roundtrip base date protein rows alnlen Ht Hc Hall Hlen) as (m & H1 & H2 & _). exists m. split; assumption.
Qed.
Print Assumptions C06_msf_roundtrip.

(* the title-line premises hold for a realistic title: base name "out.msf", date "September 29, 2026 10:15" *)
Example C06_msf_title_premises :
  let rows := [([115;49], [65;67;45;71;84]); ([115;50;124;95], [97;45;45;71;116])] in
  let t := msf_title (bytes_of_string "out.msf"%string) (bytes_of_string "September 29, 2026 10:15"%string) true 5 rows in
  forallb (fun c => negb (iscntrl c)) t = true /\ has t "//"%string = false /\ after (bytes_of_string "Name:"%string) t = None /\ hint_clu t = false.
Proof. vm_compute. repeat split; reflexivity. Qed.

(* Non-vacuity: instances by evaluation *)
Example C06_nonvacuous :
  let rows := [([115;49], [65;67;45;71;84]); ([115;50;124;95], [97;45;45;71;116])] in
  forallb (fun nr => forallb (fun c => isalpha c || (c =? dash)) (snd nr)) rows = true /\
  (exists m, read_one (write_clu [51] 5 rows) = Some (Some m) /\ rows_of (m_recs m) = rows) /\
  (exists m, read_one (write_msf [111] [68] false 5 rows) = Some (Some m) /\ rows_of (m_recs m) = rows).
Proof.
  split; [vm_compute; reflexivity|].
  split; eexists; split; vm_compute; reflexivity.
Qed.
