"""C03 - the alignment does not depend on the order of the input sequences."""
import json
import gen
from props.runner import FileRunner, parse_out

def make_names(rng, n):
    style = rng.choice(['plain', 'prefix', 'punct', 'hibyte', 'long255', 'caseonly', 'caseonly', 'punctorder'])
    if style == 'caseonly':      # names that differ only in the case of one letter / in '_' vs 'a' ('_' lies between the cases)
        base = rng.choice(['1abc_', 'sp|P12', 'Seq', 'x'])
        pool = [base + t for t in ('A', 'a', 'B', 'b', '_', 'Z', 'z', 'AA', 'Aa', 'aA', 'aa', '0', '[', '{')]
        rng.shuffle(pool)
        return [pool[i] if i < len(pool) else 'q%d' % i for i in range(n)]
    if style == 'punctorder':    # order decided by punctuation / digits / bytes around the letter ranges
        pool = ['n' + c for c in ' !-./09:@AZ[_`az{~']
        rng.shuffle(pool)
        return [pool[i] if i < len(pool) else 'q%d' % i for i in range(n)]
    if style == 'plain':
        return ['seq%d' % (i + 1) for i in range(n)]
    if style == 'prefix':
        # names that are prefixes of each other; kept distinct within the first 256 bytes (kalign compares no more of a name, and
        # C03 speaks about records that can be told apart)
        return ['s' + 'a' * (i % 240) + ('' if i < 240 else '_%d' % (i // 240)) for i in range(n)]
    if style == 'punct':
        return ['%s|%d_%d' % (rng.choice(['sp', 'tr']), rng.below(1000), i) for i in range(n)]
    if style == 'hibyte':
        return ['n%d' % i + ''.join(chr(rng.choice([0x41, 0xe9, 0xff, 0x80, 0x7f])) for _ in range(3)) + '%d' % i for i in range(n)]
    return [('L' * 250) + '%03d' % i for i in range(n)]

def run(ck):
    ck.build(('omp',))
    ck.translate()
    ok = ck.prove()
    kvh = ck.harness('omp', 'kvh')
    rng = ck.rng
    ck.rule = ('correspondence: canonical order (ranks after kalign_essential_input_check + msa_sort_len_name) and internal codes, model vs implementation, '
               'on name/sequence sets built to force name comparison (equal lengths, shared prefixes, bytes >= 0x80, 250-byte common prefixes); '
               'witness search: each input aligned in k random record orders through the file API, named rows must coincide; below and above the '
               '100-sequence switch, all types, threads 1/8. Non-trivial = permuted order differs from the first order and the alignment has a gap')
    # ---- correspondence of sort + convert ------------------------------------------------------
    lines = []
    for k in range(400 if ck.tier == 'quick' else 4000):
        kind = 'dna' if rng.chance(1, 2) else 'protein'
        fam, seqs = gen.family(rng, kind, small=True)
        if rng.chance(1, 2):   # many equal lengths
            L = rng.range(1, 12)
            seqs = [gen.rand_seq(rng, gen.DNA if kind == 'dna' else gen.PROT + 'BZXJOU', L) for _ in seqs]
        if rng.chance(1, 10):
            seqs[rng.below(len(seqs))] = ''
        elif rng.chance(1, 10):     # several header-only records, scattered, one of them the last (their removal must not touch the others)
            seqs = list(seqs) + ['']
            for _ in range(rng.range(1, 3)):
                seqs.insert(rng.below(len(seqs)), '')
            ck.count('prep: several empty records, one of them last')
        names = make_names(rng, len(seqs))
        rng.shuffle(names)
        lines.append('prep ' + ' '.join('%s:%s' % (gen.hexs(n), gen.hexs(s)) for n, s in zip(names, seqs)))
    dis, impl, mod = ck.correspond('Sort.sort_len_name + Api.convert vs msa_sort.c/msa_check.c/msa_op.c', lines, kvh)
    ck.sample({'case': lines[0][:300], 'implementation': impl[0][:200], 'model': mod[0][:200]})
    # ---- witness search: permutations through the file API ----------------------------------------
    fr = FileRunner(ck)
    fr_late = FileRunner(ck)
    fr_late2 = FileRunner(ck)
    wit = []
    try:
        groups = []
        ncases = 60 if ck.tier == 'quick' else 500
        for k in range(ncases):
            kind = 'dna' if rng.chance(1, 2) else 'protein'
            big = (k % 15 == 14)
            diffuse = (k % 30 in (9, 17, 24))
            if diffuse:
                # >= 100 records from several unrelated clusters of different lengths: the bisecting k-means has many local optima,
                # so whatever picks its seeds must depend on the canonical order only (and on nothing like time or addresses)
                alpha = gen.DNA if kind == 'dna' else gen.PROT
                roots = [gen.rand_seq(rng, alpha, rng.range(25, 70)) for _ in range(rng.range(5, 9))]
                n = rng.choice([200, 260, 300])
                seqs = [gen.mutate(rng, rng.choice(roots), alpha, 35, 10) + ('WKW' if kind == 'protein' else '') for _ in range(n)]
                fam = 'diffuse>=100'; big = True
            elif big:
                n = rng.choice([99, 100, 101, 130])
                root = gen.rand_seq(rng, gen.DNA if kind == 'dna' else gen.PROT, rng.range(15, 30))
                seqs = [gen.mutate(rng, root, gen.DNA if kind == 'dna' else gen.PROT, 10, 6) for _ in range(n)]
                if kind == 'protein':
                    seqs = [s + 'WKW' for s in seqs]
                fam = 'big'
            else:
                fam, seqs = gen.family(rng, kind, small=True)
            seqs = [s for s in seqs if s]
            if len(seqs) < 2:
                continue
            names = make_names(rng, len(seqs))
            if names[0].startswith('L' * 250):
                names = ['seq%d' % i for i in range(len(seqs))]   # FASTA names of any length are fine, keep them short here
            if any(' ' in nm for nm in names):
                names = [nm.replace(' ', '+') for nm in names]
            if k % 15 == 7:
                # > 50 records of unequal lengths, a stop marker / stray gap only in a few of them: where those records
                # stand in the file must not matter (the aligned/unaligned decision is taken before the sort)
                n = rng.choice([52, 60, 75])
                alpha = gen.DNA if kind == 'dna' else gen.PROT
                root = gen.rand_seq(rng, alpha, rng.range(12, 25))
                seqs = [gen.mutate(rng, root, alpha, 10, 8) + ('WKW' if kind == 'protein' else '') for _ in range(n)]
                for j in range(n - rng.range(1, 2), n):      # the marked records come last in the first order, first in the second
                    seqs[j] = seqs[j] + rng.choice(['*', '-', '.'])
                names = ['r%d' % i for i in range(n)]
                fam = 'late-punct>50'
            elif k % 15 == 3 and len(seqs) >= 2:
                # equal lengths, names differing only in case: the canonical order rests on the byte-wise name comparison alone
                alpha = gen.DNA if kind == 'dna' else gen.PROT
                L = rng.range(8, 30)
                seqs = [gen.rand_seq(rng, alpha, L) + ('WKW' if kind == 'protein' else '') for _ in range(max(3, len(seqs)))]
                base = rng.choice(['1abc_', 'Seq', 'sp|Q9'])
                pool = [base + t for t in ('A', 'a', 'B', 'b', 'AA', 'Aa', 'aA', 'aa', 'C', 'c')]
                names = [pool[i % len(pool)] + ('' if i < len(pool) else str(i)) for i in range(len(seqs))]
                fam = 'case-only-names'
            if k % 30 == 21:
                # more than 64 Ki residues of non-uniform composition: plain nucleotide records and records rich in ambiguity codes
                # (which the kind decision counts as amino-acid letters) - whatever is decided for the file must not depend on
                # which records come first (the decision is taken before the sort)
                kind = 'dna'
                root = gen.rand_seq(rng, gen.DNA, 1000)
                plain = [gen.mutate(rng, root, gen.DNA, 6, 2) for _ in range(rng.choice([60, 70]))]
                amb = []
                for _ in range(rng.choice([14, 20])):
                    x = list(gen.mutate(rng, root, gen.DNA, 6, 2))
                    for q in range(len(x)):
                        if rng.chance(2, 5): x[q] = rng.choice('RYKMSW')
                    amb.append(''.join(x))
                seqs = amb + plain
                names = ['u%03d' % i for i in range(len(seqs))]
                fam = 'mixed-composition>64Ki'; big = True
            ty = rng.choice([0, 1, 2, 5] if kind == 'dna' else [3, 4, 5])
            thr = rng.choice([1, 8])
            recs = list(zip(names, seqs))
            ids = []
            orders = []
            for p in range(3 if not big else (5 if fam == 'diffuse>=100' else 2)):
                order = list(range(len(recs)))
                if p and not (fam == 'diffuse>=100' and p in (2, 4)):      # the diffuse family also repeats orders: run-to-run determinism
                    rng.shuffle(order)
                elif fam == 'diffuse>=100' and p == 4:
                    order = orders[3]
                if p == 1 and fam == 'late-punct>50':
                    order = list(range(len(recs)))[::-1]
                if p == 1 and fam == 'mixed-composition>64Ki':
                    order = list(range(len(recs)))[::-1]       # the ambiguity-rich records first in one order, last in the other
                orders.append(order)
                txt = gen.fasta([recs[i][0] for i in order], [recs[i][1] for i in order])
                if fam == 'diffuse>=100' and p in (2, 4):
                    # the repetition of an order runs in ANOTHER process, later: anything seeded from the clock or the process id shows
                    ids.append(('late' if p == 2 else 'late2', (fr_late if p == 2 else fr_late2).add([txt], 'fasta', thr, ty, tag=k)))
                else:
                    ids.append(('main', fr.add([txt], 'fasta', thr, ty, tag=k)))
            groups.append((recs, ids, orders, ty, thr, fam))
            ck.count('family:' + fam); ck.count('threads:%d' % thr)
        res_main = fr.run()
        import time as _t
        _t.sleep(1.1)
        res_late = fr_late.run() if fr_late.jobs else []
        _t.sleep(1.1)
        res_late2 = fr_late2.run() if fr_late2.jobs else []
        for recs, ids, orders, ty, thr, fam in groups:
            outs = []
            for (which, i) in ids:
                r = {'main': res_main, 'late': res_late, 'late2': res_late2}[which][i]
                if r['text'] is None:
                    outs.append(None)
                else:
                    n, rows = parse_out('fasta', r['text'])
                    outs.append(dict(zip(n, rows)))
            for j in range(1, len(outs)):
                if outs[j] != outs[0]:
                    wit.append({'kind': 'order-dependent', 'records': recs if len(recs) < 40 else recs[:40], 'n_records': len(recs),
                                'order_a': orders[0], 'order_b': orders[j], 'type': ty, 'threads': thr,
                                'rows_a': outs[0] if len(recs) < 12 else None, 'rows_b': outs[j] if len(recs) < 12 else None})
                    break
                if orders[j] != orders[0] and outs[0] and any('-' in r for r in outs[0].values()):
                    ck.nontriv({'r': recs[:6], 'o': orders[j][:12], 't': ty})
    finally:
        fr.close(); fr_late.close(); fr_late2.close()
    for w in wit[:3]:
        ck.violation('witness', w)
    if not wit:
        if not ok:
            ck.violation('proof', {'what_no_longer_checks': ck.proof['failed']}, nofail=True)
        elif dis:
            ln, x, y = dis[0]
            ck.violation('correspondence', {'what_no_longer_checks': 'correspondence of Sort/convert model with msa_sort_len_name/convert_msa_to_internal',
                                            'first_disagreement': {'case': ln[:2000], 'implementation': x[:1000], 'model': y[:1000]}, 'disagreements': len(dis)}, nofail=True)

def replay(ck, obj):
    print(json.dumps(obj, indent=1)[:4000])
    return 0
