(* Model of lib/src/aln_param.c (aln_param_init), src/run_kalign.c (set_aln_type) and the
   option defaults of src/parameters.c.  Executable; no proofs here. *)
From KV Require Import Base.
From Coq Require Import String Ascii.
Local Open Scope Z_scope.

Record params := mkParams { p_gpo : N; p_gpe : N; p_tgpe : N; p_subm : list (list N) }.

(* The five set_subm_gaps_* functions.  Their bodies (matrix and default penalties) are taken
   from Generated/Tables.v, i.e. from what the built code produces now. *)
Inductive pset := PS_DNA | PS_DNA_INTERNAL | PS_RNA | PS_PROTEIN | PS_GON.

Definition pset_key (s : pset) : Z * Z :=
  match s with
  | PS_DNA => (ALN_BIOTYPE_DNA, KALIGN_TYPE_DNA)
  | PS_DNA_INTERNAL => (ALN_BIOTYPE_DNA, KALIGN_TYPE_DNA_INTERNAL)
  | PS_RNA => (ALN_BIOTYPE_DNA, KALIGN_TYPE_RNA)
  | PS_PROTEIN => (ALN_BIOTYPE_PROTEIN, KALIGN_TYPE_PROTEIN)
  | PS_GON => (ALN_BIOTYPE_PROTEIN, KALIGN_TYPE_PROTEIN_DIVERGENT)
  end.

Definition table_lookup (bt ty : Z) : option (option (N * N * N * list (list N))) :=
  match find (fun e => (fst (fst e) =? bt) && (snd (fst e) =? ty)) param_table with
  | Some e => Some (snd e)
  | None => None
  end.

Definition pset_defaults (s : pset) : option params :=
  match table_lookup (fst (pset_key s)) (snd (pset_key s)) with
  | Some (Some (gpo, gpe, tgpe, m)) => Some (mkParams gpo gpe tgpe m)
  | _ => None
  end.

(* the two switch statements of aln_param_init *)
Definition select (bt ty : Z) : option pset :=
  if bt =? ALN_BIOTYPE_DNA then
    if ty =? KALIGN_TYPE_DNA then Some PS_DNA
    else if ty =? KALIGN_TYPE_DNA_INTERNAL then Some PS_DNA_INTERNAL
    else if ty =? KALIGN_TYPE_RNA then Some PS_RNA
    else if ty =? KALIGN_TYPE_PROTEIN then None
    else if ty =? KALIGN_TYPE_PROTEIN_DIVERGENT then None
    else Some PS_RNA
  else if bt =? ALN_BIOTYPE_PROTEIN then
    if ty =? KALIGN_TYPE_PROTEIN then Some PS_PROTEIN
    else if ty =? KALIGN_TYPE_PROTEIN_DIVERGENT then Some PS_GON
    else if ty =? KALIGN_TYPE_DNA then None
    else if ty =? KALIGN_TYPE_DNA_INTERNAL then None
    else if ty =? KALIGN_TYPE_RNA then None
    else Some PS_PROTEIN
  else None.

(* aln_param_init: penalties are binary32 bit patterns; an override applies when [x >= 0.0]. *)
Definition init (bt ty : Z) (gpo gpe tgpe : N) : option params :=
  match select bt ty with
  | None => None
  | Some s =>
    match pset_defaults s with
    | None => None
    | Some d =>
      Some (mkParams (if f32_ge0 gpo then gpo else p_gpo d)
                     (if f32_ge0 gpe then gpe else p_gpe d)
                     (if f32_ge0 tgpe then tgpe else p_tgpe d)
                     (p_subm d))
    end
  end.

(* ---- strings as C sees them ----------------------------------------------------------- *)
Fixpoint bytes_of_string (s : string) : list Z :=
  match s with
  | EmptyString => []
  | String a s' => Z.of_nat (nat_of_ascii a) :: bytes_of_string s'
  end.

Fixpoint is_prefix (p l : list Z) : bool :=
  match p, l with
  | [], _ => true
  | x :: p', y :: l' => (x =? y) && is_prefix p' l'
  | _ :: _, [] => false
  end.

(* strstr(hay, needle) != NULL *)
Fixpoint contains (hay needle : list Z) : bool :=
  is_prefix needle hay ||
  match hay with
  | [] => false
  | _ :: hay' => contains hay' needle
  end.

Definition has (hay : list Z) (w : string) : bool := contains hay (bytes_of_string w).

(* set_aln_type of run_kalign.c; [None] input = option not given; [None] result = error *)
Definition set_aln_type (w : option (list Z)) : option Z :=
  match w with
  | None => Some KALIGN_TYPE_UNDEFINED
  | Some s =>
    if has s "internal" then Some KALIGN_TYPE_DNA_INTERNAL
    else if has s "rna" then Some KALIGN_TYPE_RNA
    else if has s "dna" then Some KALIGN_TYPE_DNA
    else if has s "protein" then Some KALIGN_TYPE_PROTEIN
    else if has s "divergent" then Some KALIGN_TYPE_PROTEIN_DIVERGENT
    else None
  end.

(* init_param of parameters.c: gpo = gpe = tgpe = -1.0 *)
Definition cli_default_penalty : N := 3212836864%N. (* 0xbf800000 = -1.0f *)

(* what main() hands to kalign_run for the three penalty options and --type *)
Definition cli_args (ty : option (list Z)) (gpo gpe tgpe : option N) : option (Z * N * N * N) :=
  match set_aln_type ty with
  | None => None
  | Some t => Some (t, match gpo with Some v => v | None => cli_default_penalty end,
                       match gpe with Some v => v | None => cli_default_penalty end,
                       match tgpe with Some v => v | None => cli_default_penalty end)
  end.
