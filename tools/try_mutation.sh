#!/bin/bash
# Developer helper: run checks against a scratch worktree of /repo with a patch applied.
# Usage: try_mutation.sh <patch.diff> <property id>...      (uses KV_REPO; /repo itself is untouched)
set -e
P=$(readlink -f "$1"); shift
WT=$(mktemp -d /var/tmp/kv_mut.XXXXXX)
rmdir "$WT"
git -C /repo worktree add -q --detach "$WT" HEAD
trap 'git -C /repo worktree remove --force "$WT" >/dev/null 2>&1; rm -rf "$WT" "$KV_WORK" "$KV_EVID"' EXIT
git -C "$WT" apply "$P"
cd "$(dirname "$0")/.."
export KV_EVID=$(mktemp -d /var/tmp/kv_evid.XXXXXX)
export KV_WORK=$(mktemp -d /var/tmp/kv_work.XXXXXX); cp -a coq ocaml "$KV_WORK"/
for id in "$@"; do
  echo "== $id"
  KV_REPO="$WT" tools/check "$id" quick || true
done
