(* Model of lib/src/aln_wrap.c (kalign_run) around an abstract core: everything between
   convert_msa_to_internal and finalise_alignment (guide tree, progressive alignment) is the
   function [core], which receives exactly what the C code hands to that part: the biotype, the
   aln_param record, and the internal codes of the sequences in canonical order (the lengths are
   the lengths of the code lists).  Names, ranks, the original bytes, gap counts of the input,
   letter_freq and the thread count are NOT arguments: that nothing downstream reads them is the
   modelling claim tied by the correspondence / invariance runs (DESIGN section 3).
   Also: kalign_essential_input_check (msa_check.c:66), convert_msa_to_internal (msa_op.c:340). *)
From KV Require Import Base Params Sort Weave.
Local Open Scope Z_scope.

Definition code_of (alpha : list Z) (ambig : Z) (c : Z) : Z :=
  let t := if c <? 0 then -1 else nthZ (-1) alpha c in
  if t =? -1 then ambig else t.

Definition convert (alpha : list Z) (ambig : Z) (res : list Z) : list Z := map (code_of alpha ambig) res.

(* the two conversions of kalign_run: (tree alphabet, alignment alphabet) with their ambiguity code *)
Definition alphabets (bt : Z) : option ((list Z * Z) * (list Z * Z)) :=
  if bt =? ALN_BIOTYPE_DNA then
    let a := (alpha_defDNA, nthZ (-1) alpha_defDNA 78 (* 'N' *)) in Some (a, a)
  else if bt =? ALN_BIOTYPE_PROTEIN then
    Some ((alpha_redPROTEIN, nthZ (-1) alpha_redPROTEIN 88 (* 'X' *)),
          (alpha_ambPROTEIN, nthZ (-1) alpha_ambPROTEIN 88))
  else None.

Fixpoint with_ranks (i : Z) (recs : list (list Z * list Z)) : list srec :=
  match recs with
  | [] => []
  | (nm, res) :: t => mkS i nm res :: with_ranks (i + 1) t
  end.

Definition nonempty_rec (r : srec) : bool := match r_res r with [] => false | _ => true end.

(* kalign_essential_input_check(msa, 0): more than one sequence, zero-length ones removed,
   more than one left *)
Definition essential_check (recs : list srec) : option (list srec) :=
  if (length recs <=? 1)%nat then None
  else let kept := filter nonempty_rec recs in
       if (length kept <=? 1)%nat then None else Some kept.

Section Pipeline.
Variable core : Z -> params -> list (list Z) -> list (list Z) -> list (list nat).

Definition kalign_run_model (bt ty : Z) (gpo gpe tgpe : N) (recs : list (list Z * list Z))
  : option (list (list Z * list Z)) :=
  match essential_check (with_ranks 0 recs) with
  | None => None
  | Some kept =>
    let sorted := sort_len_name kept in
    match alphabets bt with
    | None => None
    | Some ((ta, tamb), (aa, aamb)) =>
      match init bt ty gpo gpe tgpe with
      | None => None
      | Some p =>
        let gaps := core bt p (map (fun r => convert ta tamb (r_res r)) sorted)
                              (map (fun r => convert aa aamb (r_res r)) sorted) in
        let aligned := map (fun gr => mkS (r_rank (snd gr)) (r_name (snd gr)) (expand (fst gr) (r_res (snd gr))))
                           (combine gaps sorted) in
        Some (map (fun r => (r_name r, r_res r)) (sort_rank aligned))
      end
    end
  end.
End Pipeline.
