(* Model of lib/src/bpm.c: bpm_block (Myers' blocked bit-parallel algorithm as kalign uses it),
   bpm (one 64-bit word), bpm_256 (four 64-bit lanes incl. add256 and bitShiftLeft256ymm).
   uint64_t values are N with explicit reduction modulo 2^64.  Executable; no proofs here. *)
From KV Require Import Base.
Local Open Scope N_scope.

Definition w64 : N := 18446744073709551616.            (* 2^64 *)
Definition ones64 : N := 18446744073709551615.
Definition high_bit : N := 9223372036854775808.        (* 1 << 63 *)
Definition wnot (x : N) : N := N.lxor x ones64.
Definition wadd (x y : N) : N := (x + y) mod w64.
Definition wshl1 (x : N) : N := (x * 2) mod w64.

(* ---- bpm_block --------------------------------------------------------------------------------- *)
(* Peq[c][block]: bit i set iff 64*block+i >= m or p[64*block+i] = c *)
Fixpoint peq_bits (c : Z) (p : list Z) (m : nat) (pos : nat) (k : nat) (bit : N) : N :=
  match k with
  | O => 0
  | S k' =>
    (if (m <=? pos)%nat || (nth pos p (-1)%Z =? c)%Z then bit else 0) + peq_bits c p m (S pos) k' (bit * 2)
  end.

Definition peq (c : Z) (p : list Z) (m : nat) (block : nat) : N := peq_bits c p m (64 * block) 64 1.

Record blk := mkB { bP : N; bM : N; bScore : Z }.

(* one block, one text symbol: returns the new block state (score not yet updated) and h_out *)
Definition advance (Eq0 : N) (hIn : Z) (Pv Mv : N) : N * N * Z :=
  let Xv := N.lor Eq0 Mv in
  let Eq := if (hIn <? 0)%Z then N.lor Eq0 1 else Eq0 in
  let Xh := N.lor (N.lxor (wadd (N.land Eq Pv) Pv) Pv) Eq in
  let Ph := N.lor Mv (wnot (N.lor Xh Pv)) in
  let Mh := N.land Pv Xh in
  let hout := ((if N.eqb (N.land Ph high_bit) 0 then 0 else 1) - (if N.eqb (N.land Mh high_bit) 0 then 0 else 1))%Z in
  let Ph1 := wshl1 Ph in
  let Mh1 := wshl1 Mh in
  let Mh2 := if (hIn <? 0)%Z then N.lor Mh1 1 else Mh1 in
  let Ph2 := if (hIn <? 0)%Z then Ph1 else if (0 <? hIn)%Z then N.lor Ph1 1 else Ph1 in
  let Pv' := N.lor Mh2 (wnot (N.lor Xv Ph2)) in
  let Mv' := N.land Ph2 Xv in
  (Pv', Mv', hout).

(* blocks 0..y for one text symbol; returns the blocks and the last carry *)
Fixpoint column (eqs : list N) (blocks : list blk) (carry : Z) : list blk * Z :=
  match eqs, blocks with
  | e :: eqs', b :: blocks' =>
    let '(Pv, Mv, h) := advance e carry (bP b) (bM b) in
    let '(rest, c') := column eqs' blocks' h in
    (mkB Pv Mv (bScore b + h) :: rest, c')
  | _, _ => ([], carry)
  end.

Definition div_ceil (a b : nat) : nat := if (a =? 0)%nat then 1%nat else (a / b + (if (a mod b =? 0)%nat then 0 else 1))%nat.

(* The active-block index y: with maxd = m it starts at b_max-1, can never grow (y < b_max-1 is
   false) and the shrink loop needs score[y] >= maxd + w.  The loop is modelled as written. *)
Fixpoint shrink (fuel : nat) (scores : list Z) (y : nat) (lim : Z) : nat :=
  match fuel with
  | O => y
  | S f => if (lim <=? nth y scores 0)%Z then (if (y =? 0)%nat then y else shrink f scores (Nat.pred y) lim) else y
  end.

Definition bpm_block (t p : list Z) : Z :=
  let n := length t in
  let m := Nat.min (length p) 1024 in
  let b_max := div_ceil m 64 in
  let Wpad := (64 * b_max - m)%nat in
  let y0 := (div_ceil m 64 - 1)%nat in
  let init := map (fun b => mkB ones64 0 (Z.of_nat ((b + 1) * 64))) (seq 0 (S y0)) in
  let step := fun (st : list blk * nat * Z) (c : Z) =>
    let '(blocks, y, k) := st in
    let eqs := map (fun b => peq c p m b) (seq 0 (S y)) in
    let '(act, carry) := column eqs (firstn (S y) blocks) 0%Z in
    let blocks' := act ++ skipn (S y) blocks in
    (* growth branch: requires y < b_max - 1, which never holds here *)
    let y' := shrink (S y) (map bScore blocks') y (Z.of_nat m + 64) in
    let sy := nth y' (map bScore blocks') 0%Z in
    (blocks', y', if (sy <? k)%Z then sy else k) in
  let text := t ++ repeat 0%Z Wpad in
  let '(_, _, k) := fold_left step text (init, y0, Z.of_nat m) in
  k.

(* ---- bpm: single 64-bit word (patterns up to 63) ---------------------------------------------- *)
Fixpoint bmask (c : Z) (p : list Z) (bit : N) : N :=
  match p with
  | [] => 0
  | x :: p' => (if (x =? c)%Z then bit else 0) + bmask c p' (bit * 2)
  end.

Definition bpm64 (t p0 : list Z) : Z :=
  let p := firstn 63 p0 in
  let m := length p in
  let mask := 2 ^ (N.of_nat (m - 1)) in
  let step := fun (st : N * N * Z * Z) (c : Z) =>
    let '(VP, VN, diff, k) := st in
    let X := N.lor (bmask c p 1) VN in
    let D0 := N.lor (N.lxor (wadd VP (N.land X VP)) VP) X in
    let HN := N.land VP D0 in
    let HP := N.lor VN (wnot (N.lor VP D0)) in
    let X1 := wshl1 HP in
    let VN' := N.land X1 D0 in
    let VP' := N.lor (wshl1 HN) (wnot (N.lor X1 D0)) in
    let diff' := (diff + (if N.eqb (N.land HP mask) 0 then 0 else 1) - (if N.eqb (N.land HN mask) 0 then 0 else 1))%Z in
    (VP', VN', diff', if (diff' <? k)%Z then diff' else k) in
  let '(_, _, _, k) := fold_left step t (2 ^ (N.of_nat m) - 1, 0, Z.of_nat m, Z.of_nat m) in
  k.

(* ---- bpm_256: four 64-bit lanes, lane 0 least significant -------------------------------------- *)
Definition lanes := list N.   (* always 4 entries *)
Definition lmap2 (f : N -> N -> N) (a b : lanes) : lanes := map (fun ab => f (fst ab) (snd ab)) (combine a b).
Definition l_and := lmap2 N.land.
Definition l_or := lmap2 N.lor.
Definition l_xor := lmap2 N.lxor.
Definition l_not (a : lanes) : lanes := map wnot a.
Definition l_testz (a b : lanes) : bool := forallb (fun ab => N.eqb (N.land (fst ab) (snd ab)) 0) (combine a b).

(* signed compare of 64-bit lanes, as _mm256_cmpgt_epi64 *)
Definition sgn64 (x : N) : Z := if x <? high_bit then Z.of_N x else (Z.of_N x - 18446744073709551616)%Z.

(* add256 with carry-in 0 (bpm.c:330, after Alexander Yee's Kogge-Stone trick) *)
Definition add256 (A B : lanes) : lanes :=
  let A' := map (fun a => N.lxor a high_bit) A in
  let s := lmap2 wadd A' B in
  let cbits := map (fun asb => if (sgn64 (snd asb) <? sgn64 (fst asb))%Z then 1 else 0) (combine A' s) in
  let mbits := map (fun x => if N.eqb x 9223372036854775807 then 1 else 0) s in
  let tonum := fun bits => fold_right (fun b acc => b + 2 * acc) 0 bits in
  let c := tonum cbits in
  let m := tonum mbits in
  let c2 := m + 2 * c in
  let carry := c2 in                      (* carry (0) += c *)
  let m2 := N.land (N.lxor m carry) 15 in
  (* BROADCAST_MASK[m2]: lane i = 0x8000000000000000 + bit i of m2 *)
  lmap2 wadd s (map (fun i => high_bit + (if N.testbit m2 (N.of_nat i) then 1 else 0)) (seq 0 4)).

(* bitShiftLeft256ymm(data, count), 0 < count <= 64 *)
Definition shl256 (d : lanes) (count : N) : lanes :=
  let inner := map (fun x => N.shiftr x (64 - count)) d in
  let rot := match inner with [a; b; c; _] => [0; a; b; c] | _ => inner end in   (* permute 0x93, lower qword cleared *)
  lmap2 N.lor (map (fun x => (N.shiftl x count) mod w64) d) rot.

Fixpoint lanes_of_bits (c : Z) (p : list Z) (i : nat) (acc : lanes) : lanes :=
  match p with
  | [] => acc
  | x :: p' =>
    let acc' := if (x =? c)%Z then
      map (fun li => if (fst li =? i / 64)%nat then snd li + 2 ^ N.of_nat (i mod 64) else snd li) (combine (seq 0 4) acc)
      else acc in
    lanes_of_bits c p' (S i) acc'
  end.

Definition bpm256 (t p0 : list Z) : Z :=
  let p := firstn 255 p0 in
  let m := length p in
  let mask0 : lanes := [1; 0; 0; 0] in
  let mask1 := Nat.iter ((m - 1) / 64) (fun x => shl256 x 64) mask0 in
  (* bitShiftLeft256ymm(&MASK, (m-1) % 64): a shift by 0 computes data >> 64, i.e. 0 for 64-bit lanes
     under the x86 semantics of _mm256_srli_epi64 (counts > 63 give 0) *)
  let mask := if ((m - 1) mod 64 =? 0)%nat then mask1 else shl256 mask1 (N.of_nat ((m - 1) mod 64)) in
  let step := fun (st : lanes * lanes * Z * Z) (c : Z) =>
    let '(VP, VN, diff, k) := st in
    let X := l_or (lanes_of_bits c p 0 [0; 0; 0; 0]) VN in
    let D0 := l_or (l_xor (add256 VP (l_and X VP)) VP) X in
    let HN := l_and VP D0 in
    let HP := l_or VN (l_not (l_or VP D0)) in
    let X1 := shl256 HP 1 in
    let VN' := l_and X1 D0 in
    let VP' := l_or (shl256 HN 1) (l_not (l_or X1 D0)) in
    let diff' := (diff + (if l_testz HP mask then 0 else 1) - (if l_testz HN mask then 0 else 1))%Z in
    (VP', VN', diff', if (diff' <? k)%Z then diff' else k) in
  let '(_, _, _, k) := fold_left step t ([ones64; ones64; ones64; ones64], [0; 0; 0; 0], Z.of_nat m, Z.of_nat m) in
  k.

(* ---- the specification: semi-global edit distance ------------------------------------------------ *)
(* D[i][j] = min(D[i-1][j-1] + [p_i <> t_j], D[i-1][j] + 1, D[i][j-1] + 1), D[0][j] = 0, D[i][0] = i;
   sed t p = min_j D[m][j]: the least edit distance between p and a substring of t *)
Local Open Scope Z_scope.
Fixpoint next_col (c : Z) (p : list Z) (prev : list Z) (diag left : Z) : list Z :=
  (* prev = D[1..m][j-1]; diag = D[i-1][j-1]; left = D[i-1][j] (already computed, this column) *)
  match p, prev with
  | pi :: p', up :: prev' =>
    let v := Z.min (Z.min (diag + (if pi =? c then 0 else 1)) (up + 1)) (left + 1) in
    v :: next_col c p' prev' up v
  | _, _ => []
  end.

Definition sed (t p : list Z) : Z :=
  let m := Z.of_nat (length p) in
  let col0 := map (fun i => Z.of_nat i + 1) (seq 0 (length p)) in
  let '(_, best) := fold_left (fun st c =>
      let '(col, best) := st in
      let col' := next_col c p col 0 0 in
      (col', Z.min best (last col' 0))) t (col0, m) in
  best.
