(* Definitions shared by ParamsProofs.v and the extracted model: the documented parameter sets and the documented
   admissibility of alignment types.  No proofs and no evaluation of generated tables here, so the executable model
   still builds when a table-dependent proof breaks. *)
From KV Require Import Base Params Snapshot.
From KV Require Import Generated.Doc.
From Coq Require Import String.
Local Open Scope Z_scope.

(* ---- the documented parameter sets ---------------------------------------------------- *)
Definition dna_matrix : list (list N) :=
  map (fun i => map (fun j =>
        if (i <? 5) && (j <? 5) then
          if i =? j then f32_of_Z doc_dna_match else f32_of_Z doc_dna_mismatch
        else 0%N) (map Z.of_nat (seq 0 23))) (map Z.of_nat (seq 0 23)).

Definition of_snap (s : N * N * N * list (list N)) : params :=
  let '(a, b, c, m) := s in mkParams a b c m.

Definition doc_params (s : pset) : params :=
  match s with
  | PS_DNA => mkParams (f32_of_Z doc_dna_gpo) (f32_of_Z doc_dna_gpe) (f32_of_Z doc_dna_tgpe) dna_matrix
  | PS_DNA_INTERNAL => mkParams (f32_of_Z doc_dna_gpo) (f32_of_Z doc_dna_gpe) (f32_of_Z doc_internal_tgpe) dna_matrix
  | PS_RNA => of_snap snap_rna
  | PS_PROTEIN => of_snap snap_protein
  | PS_GON => of_snap snap_gon
  end.

(* which set the documentation promises for a (kind, type) pair; None = must be rejected or
   is not a documented combination *)
Definition doc_word_type (w : string) : option Z :=
  if String.eqb w "dna" then Some KALIGN_TYPE_DNA
  else if String.eqb w "internal" then Some KALIGN_TYPE_DNA_INTERNAL
  else if String.eqb w "rna" then Some KALIGN_TYPE_RNA
  else if String.eqb w "protein" then Some KALIGN_TYPE_PROTEIN
  else if String.eqb w "divergent" then Some KALIGN_TYPE_PROTEIN_DIVERGENT
  else None.

Definition pset_of_type (ty : Z) : option pset :=
  if ty =? KALIGN_TYPE_DNA then Some PS_DNA
  else if ty =? KALIGN_TYPE_DNA_INTERNAL then Some PS_DNA_INTERNAL
  else if ty =? KALIGN_TYPE_RNA then Some PS_RNA
  else if ty =? KALIGN_TYPE_PROTEIN then Some PS_PROTEIN
  else if ty =? KALIGN_TYPE_PROTEIN_DIVERGENT then Some PS_GON
  else None.

Definition is_nuc_set (s : pset) : bool :=
  match s with PS_DNA | PS_DNA_INTERNAL | PS_RNA => true | _ => false end.

(* [fits bt ty = Some s]: type [ty] is admissible for kind [bt] and documented to select [s] *)
Definition fits (bt ty : Z) : option pset :=
  if ty =? KALIGN_TYPE_UNDEFINED then
    if bt =? ALN_BIOTYPE_DNA then
      match doc_word_type doc_default_nucleotide_type with Some t => pset_of_type t | None => None end
    else if bt =? ALN_BIOTYPE_PROTEIN then
      match doc_word_type doc_default_protein_type with Some t => pset_of_type t | None => None end
    else None
  else
    match pset_of_type ty with
    | Some s =>
      if (bt =? ALN_BIOTYPE_DNA) && is_nuc_set s then Some s
      else if (bt =? ALN_BIOTYPE_PROTEIN) && negb (is_nuc_set s) then Some s
      else None
    | None => None
    end.
