(* C09 - The scoring parameters used are exactly the ones the caller selected.
   Statements only; proofs are in ParamsProofs.v. *)
From KV Require Import Base Params ParamsProofs.
From KV Require Import Generated.Doc.
From Coq Require Import String.
Local Open Scope Z_scope.

(* Each admissible (kind, type) pair selects its documented parameter set when no penalty is given
   ("not given" = any value for which [x >= 0.0] is false: negatives and NaNs). *)
Theorem C09_defaults : forall bt ty s ng1 ng2 ng3,
  In bt kinds -> In ty type_constants -> fits bt ty = Some s ->
  f32_ge0 ng1 = false -> f32_ge0 ng2 = false -> f32_ge0 ng3 = false ->
  init bt ty ng1 ng2 ng3 = Some (doc_params s).
Proof. exact init_defaults. Qed.
Print Assumptions C09_defaults.

(* An explicit penalty replaces that one value and nothing else (all bit patterns, any
   combination of the other two being given or not). *)
Theorem C09_override : forall bt ty g e t p,
  init bt ty g e t = Some p ->
  exists d, (forall n1 n2 n3, f32_ge0 n1 = false -> f32_ge0 n2 = false -> f32_ge0 n3 = false ->
               init bt ty n1 n2 n3 = Some d) /\
    p_gpo p = (if f32_ge0 g then g else p_gpo d) /\
    p_gpe p = (if f32_ge0 e then e else p_gpe d) /\
    p_tgpe p = (if f32_ge0 t then t else p_tgpe d) /\
    p_subm p = p_subm d.
Proof. exact init_override. Qed.
Print Assumptions C09_override.

(* Passing a type's defaults explicitly changes nothing. *)
Theorem C09_explicit_default : forall bt ty s,
  In bt kinds -> In ty type_constants -> fits bt ty = Some s ->
  init bt ty (p_gpo (doc_params s)) (p_gpe (doc_params s)) (p_tgpe (doc_params s)) = Some (doc_params s).
Proof.
  intros bt ty s Hb Ht Hf.
  destruct (defaults_nonneg s) as (A & B & C).
  apply (init_explicit_default bt ty (doc_params s) cli_default_penalty cli_default_penalty cli_default_penalty);
    auto using cli_not_given_is_negative.
  apply init_defaults; auto using cli_not_given_is_negative.
Qed.
Print Assumptions C09_explicit_default.

(* A type that does not fit the detected kind is rejected, whatever the penalties; and the
   non-fitting combinations are exactly protein types on nucleotides and the reverse. *)
Theorem C09_mismatch : forall bt ty g e t,
  In bt kinds -> In ty type_constants -> fits bt ty = None -> init bt ty g e t = None.
Proof. exact init_mismatch. Qed.
Print Assumptions C09_mismatch.

Theorem C09_mismatch_cases :
  fits ALN_BIOTYPE_DNA KALIGN_TYPE_PROTEIN = None /\
  fits ALN_BIOTYPE_DNA KALIGN_TYPE_PROTEIN_DIVERGENT = None /\
  fits ALN_BIOTYPE_PROTEIN KALIGN_TYPE_DNA = None /\
  fits ALN_BIOTYPE_PROTEIN KALIGN_TYPE_DNA_INTERNAL = None /\
  fits ALN_BIOTYPE_PROTEIN KALIGN_TYPE_RNA = None /\
  (forall bt ty, In bt kinds -> In ty type_constants -> fits bt ty = None ->
     (bt = ALN_BIOTYPE_DNA /\ (ty = KALIGN_TYPE_PROTEIN \/ ty = KALIGN_TYPE_PROTEIN_DIVERGENT)) \/
     (bt = ALN_BIOTYPE_PROTEIN /\ (ty = KALIGN_TYPE_DNA \/ ty = KALIGN_TYPE_DNA_INTERNAL \/ ty = KALIGN_TYPE_RNA))).
Proof. exact mismatch_cases. Qed.
Print Assumptions C09_mismatch_cases.

(* Every documented --type word selects the type of that name. *)
Theorem C09_type_words : forall w, In w doc_type_words ->
  exists t, doc_word_type w = Some t /\ set_aln_type (Some (bytes_of_string w)) = Some t.
Proof. exact type_words. Qed.
Print Assumptions C09_type_words.

Theorem C09_five_words_documented :
  forall w, In w ["rna"; "dna"; "internal"; "protein"; "divergent"]%string -> In w doc_type_words.
Proof. exact doc_words_complete. Qed.
Print Assumptions C09_five_words_documented.

(* Options that are not given reach the library as "not given". *)
Theorem C09_cli_defaults :
  cli_args None None None None = Some (KALIGN_TYPE_UNDEFINED, cli_default_penalty, cli_default_penalty, cli_default_penalty)
  /\ f32_ge0 cli_default_penalty = false.
Proof. split; reflexivity. Qed.
Print Assumptions C09_cli_defaults.

(* Non-vacuity: the premises of the theorems above are met by concrete values. *)
Example C09_defaults_nonvacuous :
  In ALN_BIOTYPE_DNA kinds /\ In KALIGN_TYPE_DNA_INTERNAL type_constants /\
  fits ALN_BIOTYPE_DNA KALIGN_TYPE_DNA_INTERNAL = Some PS_DNA_INTERNAL /\
  init ALN_BIOTYPE_DNA KALIGN_TYPE_DNA_INTERNAL cli_default_penalty (f32_of_Z 3) cli_default_penalty
    = Some (mkParams (f32_of_Z 8) (f32_of_Z 3) (f32_of_Z 8) (p_subm (doc_params PS_DNA))).
Proof. vm_compute. intuition. Qed.
