(* Model of the library as a state machine over API calls (C16): a store of msa objects addressed by
   handles, an AMBIENT component for the process-wide state a call could in principle read (OpenMP
   thread count, the bpm_256 broadcast-mask table, heap garbage), and one step per public call:
   kalign_read_input (one or several inputs into one handle), kalign_run, kalign_write_msa,
   kalign_msa_compare, kalign_free_msa and the array API kalign().
   The per-call computations are the models of the other files (Formats.read_one, Api.kalign_run_model,
   Formats.write_*, Cmp.compare_model); here only the way they are wired to objects and to the ambient
   state is restated.  Executable; no proofs here. *)
From KV Require Import Base Params Sort Detect Weave Cmp Formats Api.
Local Open Scope Z_scope.

(* ---- ambient (process-wide) state ---------------------------------------------------------------- *)
Record ambient := mkG {
  g_threads : Z;             (* omp_set_num_threads *)
  g_mask_ready : bool;       (* BROADCAST_MASK[] filled by set_broadcast_mask *)
  g_garbage : Z              (* stands for whatever earlier calls left in freed heap blocks *)
}.

(* what the numeric pipeline may read from the ambient state once kalign_run has prepared it *)
Definition prepared (G : ambient) (threads : Z) : ambient := mkG threads true (g_garbage G).

Section Hist.
(* guide tree + progressive alignment, as in Api.v, here with the ambient state it runs under *)
Variable acore : ambient -> Z -> params -> list (list Z) -> list (list Z) -> list (list nat).

Definition handle := nat.

Record obj := mkO { o_msa : in_msa }.     (* an msa object: records (name, residues, gap counts), histogram, kind, status *)

Definition store := handle -> option obj.
Definition upd (s : store) (h : handle) (v : option obj) : store := fun k => if Nat.eqb k h then v else s k.

Inductive call :=
| CRead (h : handle) (files : list (list Z))
| CRun (h : handle) (threads ty : Z) (gpo gpe tgpe : N)
| CWrite (h : handle) (fmt : option (list Z)) (basename date version : list Z)
| CCompare (h1 h2 : handle)
| CFree (h : handle)
| CKalign (seqs : list (list Z)) (threads ty : Z) (gpo gpe tgpe : N).

Inductive result :=
| RFailed | RNoObject | RDone
| RReadOk (n : nat) (biotype status : Z)
| RNothingRead
| RRows (rows : list (list Z * list Z))
| RBytes (bytes : list Z)
| RScore (bits : N).

Definition handles (c : call) : list handle :=
  match c with
  | CRead h _ => [h] | CRun h _ _ _ _ _ => [h] | CWrite h _ _ _ _ => [h]
  | CCompare a b => [a; b] | CFree h => [h] | CKalign _ _ _ _ _ _ => []
  end.

(* ---- kalign_read_input of one input into a handle that may already hold an object ------------------ *)
Definition read_file_into (cur : option in_msa) (bytes : list Z) : option in_msa * bool :=
  match read_one bytes with
  | None => (cur, false)
  | Some None => (cur, true)
  | Some (Some m) =>
    let bt := biotype_of ALN_BIOTYPE_UNDEF (m_freq m) in
    match cur with
    | None =>
      let o := mkI (m_recs m) (m_freq m) bt (detect_aligned (m_recs m)) in
      (Some o, negb (length (m_recs m) <? 2)%nat)
    | Some d =>
      if negb (i_biotype d =? ALN_BIOTYPE_UNDEF) && negb (i_biotype d =? bt) then (cur, false)
      else
        let freq := map (fun ab => fst ab + snd ab) (combine (i_freq d) (m_freq m)) in
        let recs := i_recs d ++ m_recs m in
        (Some (mkI recs freq (biotype_of (i_biotype d) freq) (detect_aligned recs)), negb (length recs <? 2)%nat)
    end
  end.

Fixpoint read_files_into (cur : option in_msa) (files : list (list Z)) : option in_msa * bool :=
  match files with
  | [] => (cur, true)
  | f :: rest => let '(cur', ok) := read_file_into cur f in
                 if ok then read_files_into cur' rest else (cur', false)
  end.

(* ---- the gapped rows of an object and back --------------------------------------------------------- *)
Fixpoint gaps_of_row (row : list Z) (run : nat) : list nat * list Z :=   (* (gap counts, residues) *)
  match row with
  | [] => ([run], [])
  | c :: t => if c =? dash then gaps_of_row t (S run)
              else let '(g, r) := gaps_of_row t 0%nat in (run :: g, c :: r)
  end.
Definition rec_of_row (nr : list Z * list Z) : rrec :=
  let '(g, r) := gaps_of_row (snd nr) 0%nat in mkRR (fst nr) r g.

Definition run_object (G : ambient) (o : in_msa) (threads ty : Z) (gpo gpe tgpe : N) : option in_msa :=
  match kalign_run_model (acore (prepared G threads)) (i_biotype o) ty gpo gpe tgpe
                         (map (fun r => (rr_name r, rr_res r)) (i_recs o)) with
  | None => None
  | Some rows => Some (mkI (map rec_of_row rows) (i_freq o) (i_biotype o) ALN_STATUS_FINAL)
  end.

Definition write_object (o : in_msa) (fmt : option (list Z)) (basename date version : list Z) : option (list Z) :=
  if negb (i_aligned o =? ALN_STATUS_FINAL) then None
  else match parse_format fmt with
       | None => None
       | Some f =>
         let rows := rows_of (i_recs o) in
         let alnlen := match rows with nr :: _ => length (snd nr) | [] => 0%nat end in
         if f =? FORMAT_FA then Some (write_fasta rows)
         else if f =? FORMAT_MSF then Some (write_msf basename date (i_biotype o =? ALN_BIOTYPE_PROTEIN) alnlen rows)
         else Some (write_clu version alnlen rows)
       end.

(* kalign_msa_compare finalises and name-sorts both arguments (they stay sorted afterwards) *)
Definition sorted_object (o : in_msa) : in_msa :=
  let rows := rows_of (i_recs o) in
  let crows := msort cmp_both (map (fun p => mk_crow (fst p) (snd p)) rows) in
  mkI (map (fun c => rec_of_row (c_name c, c_row c)) crows) (i_freq o) (i_biotype o)
      (if i_aligned o =? ALN_STATUS_ALIGNED then ALN_STATUS_FINAL else i_aligned o).

Definition kalign_array (G : ambient) (seqs : list (list Z)) (threads ty : Z) (gpo gpe tgpe : N)
  : option (list (list Z * list Z)) :=
  let hist := histogram seqs in
  match detect_alphabet hist with
  | None => None       (* biotype left undefined: kalign_run refuses *)
  | Some bt =>
    kalign_run_model (acore (prepared G (if threads <? 1 then 1 else threads))) bt ty gpo gpe tgpe
                     (map (fun s => ([], s)) seqs)
  end.

(* ---- one call ------------------------------------------------------------------------------------------- *)
Definition step (Gs : ambient * store) (c : call) : (ambient * store) * result :=
  let '(G, s) := Gs in
  match c with
  | CRead h files =>
    let '(cur', ok) := read_files_into (option_map o_msa (s h)) files in
    let s' := upd s h (option_map mkO cur') in
    ((G, s'), if ok then match cur' with
                         | Some o => RReadOk (length (i_recs o)) (i_biotype o) (i_aligned o)
                         | None => RNothingRead
                         end
              else RFailed)
  | CRun h threads ty gpo gpe tgpe =>
    match s h with
    | None => ((G, s), RNoObject)
    | Some o =>
      match run_object G (o_msa o) threads ty gpo gpe tgpe with
      | None => ((prepared G threads, s), RFailed)
      | Some o' => ((prepared G threads, upd s h (Some (mkO o'))), RRows (rows_of (i_recs o')))
      end
    end
  | CWrite h fmt b d v =>
    match s h with
    | None => ((G, s), RNoObject)
    | Some o => ((G, s), match write_object (o_msa o) fmt b d v with Some bytes => RBytes bytes | None => RFailed end)
    end
  | CCompare h1 h2 =>
    match s h1, s h2 with
    | Some a, Some b =>
      let a' := sorted_object (o_msa a) in
      let b' := sorted_object (o_msa b) in
      ((G, upd (upd s h1 (Some (mkO a'))) h2 (Some (mkO b'))),
       RScore (snd (compare_model (rows_of (i_recs a')) (rows_of (i_recs b')))))
    | _, _ => ((G, s), RNoObject)
    end
  | CFree h => ((G, upd s h None), RDone)
  | CKalign seqs threads ty gpo gpe tgpe =>
    ((prepared G (if threads <? 1 then 1 else threads), s),
     match kalign_array G seqs threads ty gpo gpe tgpe with Some rows => RRows rows | None => RFailed end)
  end.

Fixpoint run_history (Gs : ambient * store) (cs : list call) : (ambient * store) * list result :=
  match cs with
  | [] => (Gs, [])
  | c :: rest => let '(Gs', r) := step Gs c in
                 let '(Gs'', rs) := run_history Gs' rest in (Gs'', r :: rs)
  end.

Definition empty_store : store := fun _ => None.

(* the allocation ledger at object granularity: handles below [n] that hold an object *)
Definition live (s : store) (n : nat) : nat := length (filter (fun h => match s h with Some _ => true | None => false end) (seq 0 n)).

(* ---- backward slice of a history: the calls that can reach the given handles -------------------------- *)
Definition intersects (a b : list handle) : bool := existsb (fun x => existsb (Nat.eqb x) b) a.

Fixpoint slice_rev (D : list handle) (rev_pre : list call) : list call :=
  match rev_pre with
  | [] => []
  | c :: r => if intersects (handles c) D then slice_rev (handles c ++ D) r ++ [c] else slice_rev D r
  end.
Definition slice (D : list handle) (pre : list call) : list call := slice_rev D (rev pre).

End Hist.
