(* Model of the numeric pipeline between convert_msa_to_internal and finalise_alignment:
   lib/src/aln_setup.c (make_profile_n, set_gap_penalties_n, update_n), the three kernel instances of
   Kernels.v with their cost accessors, lib/src/aln_run.c (do_align: which kernel, which operand is
   side 1, mirroring), lib/src/sequence_distance.c (d_estimation for the pairwise case, calc_distance),
   lib/src/bisectingKmeans.c (upgma, label_internal, create_tasks) and lib/src/task.c (order by c).
   Floats are Flocq binary32 (FP.v) through the [alg] alg_f32.  The bisecting k-means path (>= 100
   sequences) is NOT modelled: for such inputs the guide tree is taken from the implementation
   (parametric tie, see DESIGN).  Executable; no proofs here. *)
From KV Require Import Base FP Params Weave Bpm BpmBits Cmp Kernels.
From Flocq Require Import IEEE754.Bits.
Local Open Scope Z_scope.

(* ---- binary32 arithmetic ---------------------------------------------------------------------------- *)
Definition f32_negmax : f32 := f32_of_bits 4286578687.      (* 0xff7fffff = -FLT_MAX *)
Definition f32_nonzero (x : f32) : bool := match b32_compare x f32_zero with Some Eq => false | _ => true end.
Definition f32_tiebreak (startb endb i : Z) : f32 :=
  let middle := f32_add (f32_div (f32_of_Z (endb - startb)) (f32_of_Z 2)) (f32_of_Z startb) in
  f32_div (b32_abs (f32_sub middle (f32_of_Z i))) (f32_of_Z 1000).

Definition alg_f32 : alg :=
  mkAlg f32 f32_add f32_mul b32_opp f32_gt f32_nonzero f32_zero f32_negmax f32_of_Z f32_tiebreak.

Section Numeric.
Variable A : alg.
Notation T := (T A).
Notation "x +. y" := (add A x y) (at level 50, left associativity).
Notation "x *. y" := (mul A x y) (at level 40, left associativity).

Record nparams := mkNP { n_gpo : T; n_gpe : T; n_tgpe : T; n_subm : list (list T) }.
Variable P : nparams.

Definition sub_score (a b : Z) : T := nth (Z.to_nat b) (nth (Z.to_nat a) (n_subm P) []) (zero A).
Definition slice {X} (l : list X) (a b : Z) : list X := firstn (Z.to_nat (b - a)) (skipn (Z.to_nat a) l).

(* ---- profiles: a column is 64 values ------------------------------------------------------------------ *)
Definition column := list T.
Definition pget (c : column) (i : nat) : T := nth i c (zero A).
Fixpoint pset (c : column) (i : nat) (v : T) : column :=
  match c, i with
  | _ :: t, O => v :: t
  | x :: t, S i' => x :: pset t i' v
  | [], _ => []
  end.
Definition zero_col : column := repeat (zero A) 64.
Definition border_col : column :=
  pset (pset (pset zero_col 55 (neg A (n_gpo P))) 56 (neg A (n_gpe P))) 57 (neg A (n_tgpe P)).

(* make_profile_n: columns 0 .. len+1 *)
Definition residue_col (c : Z) : column :=
  let counts := pset (repeat (zero A) 32) (Z.to_nat c) (zero A +. of_int A 1) in
  let scores := map (fun j => sub_score c (Z.of_nat j)) (seq 0 23) in
  counts ++ scores ++ [neg A (n_gpo P); neg A (n_gpe P); neg A (n_tgpe P)] ++ repeat (zero A) 6.
Definition make_profile (codes : list Z) : list column :=
  border_col :: map residue_col codes ++ [border_col].

(* set_gap_penalties_n: [27..29] = [55..57] * nsip of the other side, in every column *)
Definition set_gap_penalties (prof : list column) (nsip : Z) : list column :=
  let k := of_int A nsip in
  map (fun c => pset (pset (pset c 27 (pget c 55 *. k)) 28 (pget c 56 *. k)) 29 (pget c 57 *. k)) prof.

(* update_n *)
Definition col_add (x y : column) : column := map (fun ab => fst ab +. snd ab) (combine x y).
Definition sub_range (c : column) (gp : T) : column :=       (* newp[32..54] -= gp *)
  map (fun iv => if (32 <=? fst iv)%nat && (fst iv <? 55)%nat then snd iv +. neg A gp else snd iv)
      (combine (seq 0 (length c)) c).
Definition bump (c : column) (i : nat) (v : T) : column := pset c i (pget c i +. v).

Definition gap_column (src : column) (op : Z) (sip : Z) : column :=
  let s := of_int A sip in
  let has (bit : Z) := negb (Z.land op bit =? 0) in
  if negb (has 20) then
    if has 32 then sub_range (bump src 25 s) (n_tgpe P *. s)
    else sub_range (bump src 24 s) (n_gpe P *. s)
  else
    let c1 := if has 16 then
                if has 32 then sub_range (bump (bump src 25 s) 23 s) (n_tgpe P *. s +. n_gpo P *. s)
                else sub_range (bump src 23 s) (n_gpo P *. s)
              else src in
    if has 4 then
      if has 32 then sub_range (bump (bump c1 25 s) 23 s) (n_tgpe P *. s +. n_gpo P *. s)
      else sub_range (bump c1 23 s) (n_gpo P *. s)
    else c1.

Fixpoint update_cols (ops : list Z) (pa pb : list column) (sipa sipb : Z) : list column :=
  match ops with
  | [] => match pa, pb with a :: _, b :: _ => [col_add a b] | _, _ => [] end
  | op :: rest =>
    if op =? 0 then
      match pa, pb with
      | a :: pa', b :: pb' => col_add a b :: update_cols rest pa' pb' sipa sipb
      | _, _ => []
      end
    else if negb (Z.land op 1 =? 0) then
      match pb with
      | b :: pb' => gap_column b op sipa :: update_cols rest pa pb' sipa sipb
      | [] => []
      end
    else if negb (Z.land op 2 =? 0) then
      match pa with
      | a :: pa' => gap_column a op sipb :: update_cols rest pa' pb sipa sipb
      | [] => []
      end
    else update_cols rest pa pb sipa sipb
  end.

Definition update_profile (ops : list Z) (pa pb : list column) (sipa sipb : Z) : list column :=
  match pa, pb with
  | a0 :: pa', b0 :: pb' => col_add a0 b0 :: update_cols ops pa' pb' sipa sipb
  | _, _ => []
  end.

(* ---- the three kernel instances ---------------------------------------------------------------------------- *)
Definition ng (x : T) := neg A x.

(* sequence - sequence *)
Definition ss_costs : costs A Z Z :=
  mkCosts A Z Z (fun r c x => x +. sub_score r c)
          (fun _ => ng (n_gpo P)) (fun _ => ng (n_gpo P))
          (fun _ => ng (n_gpe P)) (fun _ => ng (n_gpo P)) (fun _ => ng (n_tgpe P))
          (fun _ => ng (n_gpe P)) (fun _ => ng (n_gpo P)) (fun _ => ng (n_tgpe P)).
Definition ss_meet : mcosts A :=
  mkM A (fun _ => ng (n_gpo P)) (ng (n_gpo P)) (fun _ => ng (n_gpo P)) (ng (n_gpe P)) (ng (n_tgpe P)) (ng (n_gpo P)).

Definition ss_kernel (seq1 seq2 : list Z) : kernel A :=
  let len_b := Z.of_nat (length seq2) in
  mkKernel A
    (fun starta mid startb endb f0 =>
       pass A Z Z ss_costs (negb (startb =? 0)) (negb (endb =? len_b)) f0 (slice seq1 starta mid) (slice seq2 startb endb))
    (fun mid enda startb endb b0 =>
       rev (pass A Z Z ss_costs (negb (endb =? len_b)) (negb (startb =? 0)) b0 (rev (slice seq1 mid enda)) (rev (slice seq2 startb endb))))
    (fun mid startb endb fs bs => meetup A ss_meet (startb =? 0) (endb =? len_b) startb endb fs bs).

(* profile (rows) - sequence (columns) *)
Definition RowP := (column * column)%type.       (* own column, previous column in processing order *)
Definition sp_costs (sip : Z) : costs A RowP Z :=
  let k := of_int A sip in
  let open := n_gpo P *. k in let ext := n_gpe P *. k in let text := n_tgpe P *. k in
  mkCosts A RowP Z (fun r c x => x +. pget (fst r) (32 + Z.to_nat c))
          (fun _ => ng open) (fun r => pget (snd r) 27)
          (fun _ => ng ext) (fun _ => ng open) (fun _ => ng text)
          (fun r => pget (fst r) 28) (fun r => pget (fst r) 27) (fun r => pget (fst r) 29).
Definition sp_meet (sip : Z) (prof1 : list column) (mid : Z) : mcosts A :=
  let open := n_gpo P *. of_int A sip in
  let own := nth (Z.to_nat (mid + 1)) prof1 [] in
  mkM A (fun _ => ng open) (pget own 27) (fun _ => ng open) (pget own 28) (pget own 29)
      (pget (nth (Z.to_nat mid) prof1 []) 27).

Definition rows_fwd (prof1 : list column) (a b : Z) : list RowP := combine (slice prof1 (a + 1) (b + 1)) (slice prof1 a b).
Definition rows_bwd (prof1 : list column) (a b : Z) : list RowP := rev (combine (slice prof1 (a + 1) (b + 1)) (slice prof1 (a + 2) (b + 2))).

Definition sp_kernel (prof1 : list column) (seq2 : list Z) (sip : Z) : kernel A :=
  let len_b := Z.of_nat (length seq2) in
  mkKernel A
    (fun starta mid startb endb f0 =>
       pass A RowP Z (sp_costs sip) (negb (startb =? 0)) (negb (endb =? len_b)) f0 (rows_fwd prof1 starta mid) (slice seq2 startb endb))
    (fun mid enda startb endb b0 =>
       rev (pass A RowP Z (sp_costs sip) (negb (endb =? len_b)) (negb (startb =? 0)) b0 (rows_bwd prof1 mid enda) (rev (slice seq2 startb endb))))
    (fun mid startb endb fs bs => meetup A (sp_meet sip prof1 mid) (startb =? 0) (endb =? len_b) startb endb fs bs).

(* profile - profile *)
Definition pp_match (r : RowP) (c : RowP) (x : T) : T :=
  let own1 := fst r in let own2 := fst c in
  let freq := filter (fun j => nonzero A (pget own1 j)) (seq 0 23) in
  fold_left (fun acc j => acc +. pget own1 j *. pget own2 (32 + j)) (rev freq) x.
Definition pp_costs : costs A RowP RowP :=
  mkCosts A RowP RowP pp_match
          (fun c => pget (snd c) 27) (fun r => pget (snd r) 27)
          (fun c => pget (fst c) 28) (fun c => pget (fst c) 27) (fun c => pget (fst c) 29)
          (fun r => pget (fst r) 28) (fun r => pget (fst r) 27) (fun r => pget (fst r) 29).
Definition pp_meet (prof1 prof2 : list column) (mid : Z) : mcosts A :=
  let own := nth (Z.to_nat (mid + 1)) prof1 [] in
  mkM A (fun i => pget (nth (Z.to_nat (i + 1)) prof2 []) 27) (pget own 27)
      (fun i => pget (nth (Z.to_nat i) prof2 []) 27) (pget own 28) (pget own 29)
      (pget (nth (Z.to_nat mid) prof1 []) 27).
(* forward cells startb+1..endb own column j, previous j-1; backward cells endb-1..startb own j+1, previous j+2 *)
Definition cols_fwd (prof2 : list column) (a b : Z) : list RowP := combine (slice prof2 (a + 1) (b + 1)) (slice prof2 a b).
Definition cols_bwd (prof2 : list column) (a b : Z) : list RowP := rev (combine (slice prof2 (a + 1) (b + 1)) (slice prof2 (a + 2) (b + 2))).

Definition pp_kernel (prof1 prof2 : list column) : kernel A :=
  let len_b := Z.of_nat (length prof2) - 2 in
  mkKernel A
    (fun starta mid startb endb f0 =>
       pass A RowP RowP pp_costs (negb (startb =? 0)) (negb (endb =? len_b)) f0 (rows_fwd prof1 starta mid) (cols_fwd prof2 startb endb))
    (fun mid enda startb endb b0 =>
       rev (pass A RowP RowP pp_costs (negb (endb =? len_b)) (negb (startb =? 0)) b0 (rows_bwd prof1 mid enda) (cols_bwd prof2 startb endb)))
    (fun mid startb endb fs bs => meetup A (pp_meet prof1 prof2 mid) (startb =? 0) (endb =? len_b) startb endb fs bs).

(* ---- do_align: one merge ------------------------------------------------------------------------------------- *)
(* a group: either one sequence (its codes) or a profile with its member count *)
Record group := mkGroup { g_codes : option (list Z); g_prof : list column; g_nsip : Z; g_len : Z }.

Definition leaf_group (codes : list Z) : group := mkGroup (Some codes) [] 1 (Z.of_nat (length codes)).

(* which kernel runs, with which operand as side 1 (the shorter sequence / profile; the profile for
   sequence-profile), and whether the path has to be mirrored back onto side a *)
Definition kernel_of (ga gb : group) : kernel A * Z * Z * bool :=
  let la := g_len ga in let lb := g_len gb in
  match g_codes ga, g_codes gb with
  | Some sa, Some sb => if la <? lb then (ss_kernel sa sb, la, lb, false) else (ss_kernel sb sa, lb, la, true)
  | Some sa, None => (sp_kernel (g_prof gb) sa (g_nsip gb), lb, la, true)
  | None, Some sb => (sp_kernel (g_prof ga) sb (g_nsip ga), la, lb, false)
  | None, None => if la <? lb then (pp_kernel (g_prof ga) (g_prof gb), la, lb, false)
                  else (pp_kernel (g_prof gb) (g_prof ga), lb, la, true)
  end.

(* raw path over side a (len_a entries), as left in tmp_path after add_gap_info_to_path_n *)
Definition align_pair (ga gb : group) : option (list Z) :=
  let '(k, l1, l2, mir) := kernel_of ga gb in
  option_map (fun p => if mir then mirror_path (g_len ga) p else p) (raw_path A k l1 l2).

(* every meetup of that run, in the order they are made: (max, transition, meet) *)
Definition align_meets (ga gb : group) : list (T * Z * Z) :=
  let '(k, l1, l2, _) := kernel_of ga gb in meet_trace A k l1 l2.

(* profiles as do_align prepares them: a leaf gets a fresh profile, a profile gets its gap penalties
   scaled by the member count of the other side *)
Definition prepared_profile (g : group) (other_nsip : Z) : list column :=
  match g_codes g with
  | Some codes => make_profile codes
  | None => set_gap_penalties (g_prof g) other_nsip
  end.

Record merge_out := mkMO { mo_raw : list Z; mo_ops : list Z; mo_group : group; mo_meets : list (T * Z * Z) }.

Definition do_align (ga gb : group) (is_last : bool) : option merge_out :=
  let pa := prepared_profile ga (g_nsip gb) in
  let pb := prepared_profile gb (g_nsip ga) in
  let ga' := mkGroup (g_codes ga) pa (g_nsip ga) (g_len ga) in
  let gb' := mkGroup (g_codes gb) pb (g_nsip gb) (g_len gb) in
  match align_pair ga' gb' with
  | None => None
  | Some raw =>
    match add_gap_info (g_len gb) raw with
    | None => None
    | Some ops =>
      let newp := if is_last then [] else update_profile ops pa pb (g_nsip ga) (g_nsip gb) in
      Some (mkMO raw ops (mkGroup None newp (g_nsip ga + g_nsip gb) (Z.of_nat (length ops))) (align_meets ga' gb'))
    end
  end.

(* the progressive alignment over a task list (a, b, c) in child-before-parent order *)
Fixpoint set_group (l : list (option group)) (i : nat) (g : group) : list (option group) :=
  match l, i with
  | _ :: t, O => Some g :: t
  | x :: t, S i' => x :: set_group t i' g
  | [], _ => []
  end.

Fixpoint run_tasks (groups : list (option group)) (tasks : list (nat * nat * nat)) : option (list (nat * nat * nat * list Z * list Z * list (T * Z * Z))) :=
  match tasks with
  | [] => Some []
  | (a, b, c) :: rest =>
    match nth a groups None, nth b groups None with
    | Some ga, Some gb =>
      match do_align ga gb (match rest with [] => true | _ => false end) with
      | None => None
      | Some mo =>
        match run_tasks (set_group groups c (mo_group mo)) rest with
        | None => None
        | Some r => Some ((a, b, c, mo_raw mo, mo_ops mo, mo_meets mo) :: r)
        end
      end
    | _, _ => None
    end
  end.

Definition progressive (codes : list (list Z)) (tasks : list (nat * nat * nat)) : option (list (nat * nat * nat * list Z * list Z * list (T * Z * Z))) :=
  let n := length codes in
  run_tasks (map (fun c => Some (leaf_group c)) codes ++ repeat None (n - 1)) tasks.
End Numeric.

(* ---- guide tree for fewer than 100 sequences: pairwise distances + UPGMA (binary32) --------------------------- *)
Definition f32_half : f32 := f32_of_bits 1056964608.        (* 0.5F *)
Definition f32_milli : f32 := f32_of_bits 981668463.        (* 0.001F *)
Definition f32_fltmax : f32 := f32_of_bits 2139095039.      (* FLT_MAX *)

(* calc_distance + the length term of d_estimation: (float)bpm + (float)(MIN(10000.0, (l1+l2)/2) / 10000.0) *)
Definition pair_distance (sa sb : list Z) : f32 :=
  let la := Z.of_nat (length sa) in let lb := Z.of_nat (length sb) in
  let d := if lb <? la then bpm_block_bits sa sb else bpm_block_bits sb sa in     (* the model C11_block is about *)
  let s := (la + lb) / 2 in
  let addv := f32_of_f64 (f64_div (f64_of_Z (Z.min 10000 s)) (f64_of_Z 10000)) in
  f32_add (f32_of_Z d) addv.

(* the matrix after the double loop of d_estimation(pair = 1): entry (x, y) was last written by the
   iteration (max x y, min x y) *)
Definition distance_matrix (codes : list (list Z)) : list (list f32) :=
  let n := length codes in
  map (fun x => map (fun y =>
         let hi := Nat.max x y in let lo := Nat.min x y in
         pair_distance (nth hi codes []) (nth lo codes [])) (seq 0 n)) (seq 0 n).

Inductive utree := ULeaf (id : nat) | UNode (l r : utree).

Definition mget (m : list (list f32)) (i j : nat) : f32 := nth j (nth i m []) f32_zero.

(* first strictly smallest active pair in row-major order *)
Definition find_min (m : list (list f32)) (active : list bool) (n : nat) : nat * nat :=
  let '(_, a, b) :=
    fold_left (fun st i =>
      if nth i active false then
        fold_left (fun st j =>
          let '(mxv, a, b) := st in
          if nth j active false && f32_lt (mget m i j) mxv then (mget m i j, i, j) else st) (seq (S i) (n - S i)) st
      else st) (seq 0 (n - 1)) (f32_fltmax, 0%nat, 0%nat) in (a, b).

Definition join_rows (m : list (list f32)) (a b n : nat) : list (list f32) :=
  let rowa := map (fun j => if Nat.eqb j b then mget m a j
                            else if Nat.eqb j a then f32_zero
                            else f32_add (f32_mul (f32_add (mget m a j) (mget m b j)) f32_half) f32_milli) (seq 0 n) in
  map (fun i => if Nat.eqb i a then rowa
                else map (fun j => if Nat.eqb j a then nth i rowa f32_zero else mget m i j) (seq 0 n)) (seq 0 n).

Fixpoint upgma_loop (fuel : nat) (m : list (list f32)) (active : list bool) (trees : list (option utree)) (n : nat) (last : nat) : option utree :=
  match fuel with
  | O => nth last trees None
  | S fu =>
    let '(a, b) := find_min m active n in
    match nth a trees None, nth b trees None with
    | Some ta, Some tb =>
      let trees' := map (fun it => if Nat.eqb (fst it) a then Some (UNode ta tb) else if Nat.eqb (fst it) b then None else snd it)
                        (combine (seq 0 n) trees) in
      let active' := map (fun ib => if Nat.eqb (fst ib) b then false else snd ib) (combine (seq 0 n) active) in
      upgma_loop fu (join_rows m a b n) active' trees' n a
    | _, _ => None
    end
  end.

Definition upgma (m : list (list f32)) (n : nat) : option utree :=
  upgma_loop (n - 1) m (repeat true n) (map (fun i => Some (ULeaf i)) (seq 0 n)) n 0%nat.

(* label_internal: post-order numbering of the internal nodes from numseq; create_tasks: pre-order list *)
Inductive ltree := LLeaf (id : nat) | LNode (id : nat) (l r : ltree).
Definition lid (t : ltree) : nat := match t with LLeaf i => i | LNode i _ _ => i end.
Fixpoint label (t : utree) (next : nat) : ltree * nat :=
  match t with
  | ULeaf i => (LLeaf i, next)
  | UNode l r => let '(l', n1) := label l next in let '(r', n2) := label r n1 in (LNode n2 l' r', S n2)
  end.
Fixpoint tasks_of (t : ltree) : list (nat * nat * nat) :=
  match t with
  | LLeaf _ => []
  | LNode c l r => (lid l, lid r, c) :: tasks_of l ++ tasks_of r
  end.

(* guide tree of fewer than 100 sequences: task list as create_tasks leaves it (pre-order) *)
Definition guide_tasks (tree_codes : list (list Z)) : option (list (nat * nat * nat)) :=
  let n := length tree_codes in
  match upgma (distance_matrix tree_codes) n with
  | None => None
  | Some t => Some (tasks_of (fst (label t n)))
  end.

(* sort_tasks(TASK_ORDER_TREE): ascending c (labels are distinct) *)
Fixpoint insert_task (t : nat * nat * nat) (l : list (nat * nat * nat)) : list (nat * nat * nat) :=
  match l with
  | [] => [t]
  | x :: r => if (snd t <=? snd x)%nat then t :: l else x :: insert_task t r
  end.
Definition sort_tasks (l : list (nat * nat * nat)) : list (nat * nat * nat) := fold_right insert_task [] l.

(* ---- binary32 instance of the pipeline ---------------------------------------------------------------------------- *)
Definition np_of_params (p : params) : nparams alg_f32 :=
  mkNP alg_f32 (f32_of_bits (p_gpo p)) (f32_of_bits (p_gpe p)) (f32_of_bits (p_tgpe p))
       (map (map f32_of_bits) (p_subm p)).
