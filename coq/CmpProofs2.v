(* C17: independence of the row order, and score 100 for alignments that are the same up to row
   order and all-gap columns. *)
From KV Require Import Base FP Sort SortProofs Weave WeaveProofs Cmp CmpProofs Api ApiProofs OrderProofs.
From Coq Require Import Permutation Sorted.
Local Open Scope Z_scope.

Lemma strncmp_refl n : forall a, strncmp n a a = 0.
Proof.
  induction n as [|n IH]; intros [|x a]; simpl; auto.
  rewrite Z.ltb_irrefl. destruct (uchar x =? 0); auto.
Qed.

Definition name_differs (x y : crow) : Prop :=
  strncmp 256 (c_name x) (c_name y) <> 0 /\ strncmp 256 (c_name y) (c_name x) <> 0.
Definition names_distinct (l : list crow) : Prop := ForallOrdPairs name_differs l.

Lemma fop_in_cases {A} (R : A -> A -> Prop) : forall l x y,
  ForallOrdPairs R l -> In x l -> In y l -> x = y \/ R x y \/ R y x.
Proof.
  induction l as [|a l IH]; intros x y H Hx Hy; [contradiction|].
  inversion H as [|? ? Ha Hl]; subst. rewrite Forall_forall in Ha.
  destruct Hx as [<-|Hx], Hy as [<-|Hy]; auto.
Qed.

Lemma le_both_iff l x y : names_distinct l -> In x l -> In y l ->
  (cmp_both x y <= 0 <-> x <> y /\ strncmp 256 (c_name x) (c_name y) < 0).
Proof.
  intros Hd Hx Hy. unfold cmp_both.
  destruct (fop_in_cases _ l x y Hd Hx Hy) as [<-|Hdiff].
  - rewrite strncmp_refl. simpl. rewrite Z.ltb_irrefl. split; [lia|]. intros [H _]. congruence.
  - assert (strncmp 256 (c_name x) (c_name y) <> 0) as Hne by (destruct Hdiff as [[A B]|[A B]]; auto).
    assert (x <> y) as Hxy by (intro; subst; rewrite strncmp_refl in Hne; congruence).
    destruct (Z.ltb_spec (strncmp 256 (c_name x) (c_name y)) 0) as [L|L].
    + split; [intros _; auto|lia].
    + destruct (Z.eqb_spec (strncmp 256 (c_name x) (c_name y)) 0); [contradiction|].
      split; [lia|]. intros [_ H]. lia.
Qed.

(* C17: the order of the rows in either argument does not matter *)
Theorem sort_both_canonical l l' :
  names_distinct l -> Permutation l l' -> msort cmp_both l = msort cmp_both l'.
Proof.
  intros Hd Hp. apply msort_canonical; auto.
  - intros x y z Hx Hy Hz H1 H2.
    apply (le_both_iff l x y Hd Hx Hy) in H1 as [N1 L1].
    apply (le_both_iff l y z Hd Hy Hz) in H2 as [N2 L2].
    apply (le_both_iff l x z Hd Hx Hz). split.
    + intro; subst. pose proof (strncmp_antisym 256 _ _ L1). lia.
    + eapply strncmp_trans; eauto.
  - intros x y Hx Hy H1 H2.
    apply (le_both_iff l x y Hd Hx Hy) in H1 as [N1 L1].
    apply (le_both_iff l y x Hd Hy Hx) in H2 as [N2 L2].
    pose proof (strncmp_antisym 256 _ _ L1). lia.
  - unfold names_distinct in Hd.
    assert (forall l0, ForallOrdPairs name_differs l0 -> (forall x, In x l0 -> In x l) ->
            ForallOrdPairs (fun x y => cmp_both x y <= 0 \/ cmp_both y x <= 0) l0) as K.
    { induction 1 as [|a l0 Ha Hl IH]; intros Hin; constructor.
      - rewrite Forall_forall in *. intros b Hb. specialize (Ha b Hb).
        assert (In a l) as Ia by (apply Hin; simpl; auto).
        assert (In b l) as Ib by (apply Hin; simpl; auto).
        assert (a <> b) as Hab by (intro; subst; destruct Ha as [A _]; rewrite strncmp_refl in A; congruence).
        destruct Ha as [A B].
        destruct (strncmp_range 256 (c_name a) (c_name b)) as [R|[R|R]]; try congruence.
        + left. apply (le_both_iff l a b Hd Ia Ib). split; auto. lia.
        + right. apply (le_both_iff l b a Hd Ib Ia). split; auto.
          rewrite (strncmp_flip 256 _ _ R). lia.
      - apply IH. intros x Hx. apply Hin. simpl; auto. }
    apply K; auto.
Qed.

Theorem compare_row_order r r' t t' :
  names_distinct r -> names_distinct t -> Permutation r r' -> Permutation t t' ->
  compare_counters r' t' = compare_counters r t.
Proof.
  intros Hr Ht Pr Pt. unfold compare_counters.
  rewrite <- (sort_both_canonical r r' Hr Pr), <- (sort_both_canonical t t' Ht Pt). reflexivity.
Qed.

(* ---- same alignment up to row order and all-gap columns ------------------------------------------- *)
Section Same.
Variables (ng1 ng2 : list nat) (w : nat).
Hypothesis Hng1 : length ng1 = S w.
Hypothesis Hng2 : length ng2 = S w.
Variables (R T0 : list crow).

(* row x of the reference and row x' of the test are the same core row with all-gap columns
   inserted (ng1 resp. ng2 are common to all rows), under the same name *)
Definition same_row (x x' : crow) : Prop :=
  c_name x = c_name x' /\ exists c, length c = w /\ c_row x = expand ng1 c /\ c_row x' = expand ng2 c.

Definition rel_in (x x' : crow) : Prop := In x R /\ In x' T0 /\ same_row x x'.

Hypothesis HR : names_distinct R.
Hypothesis HT0 : names_distinct T0.

Lemma rel_in_cmp x x' y y' : rel_in x x' -> rel_in y y' -> cmp_both x y = cmp_both x' y'.
Proof.
  intros (Ix & Ix' & Nx & _) (Iy & Iy' & Ny & _). unfold cmp_both.
  rewrite <- Nx, <- Ny.
  destruct (Z.ltb_spec (strncmp 256 (c_name x) (c_name y)) 0); auto.
  destruct (Z.eqb_spec (strncmp 256 (c_name x) (c_name y)) 0) as [E|E]; auto.
  (* equal names: both are one and the same row on each side *)
  assert (x = y) as ->.
  { destruct (fop_in_cases _ R x y HR Ix Iy) as [|[[A B]|[A B]]]; auto; congruence. }
  assert (x' = y') as ->.
  { destruct (fop_in_cases _ T0 x' y' HT0 Ix' Iy') as [|[[A B]|[A B]]]; auto.
    - rewrite <- Nx, <- Ny in A. congruence.
    - rewrite <- Nx, <- Ny in B. congruence. }
  rewrite !Z.ltb_irrefl. reflexivity.
Qed.

Lemma Forall2_weaken {A B} (P P' : A -> B -> Prop) : (forall a b, P a b -> P' a b) ->
  forall l l', Forall2 P l l' -> Forall2 P' l l'.
Proof. intros H l l'. induction 1; constructor; auto. Qed.

Lemma Forall2_in_both {A B} (Q : A -> B -> Prop) : forall l l', Forall2 Q l l' ->
  Forall2 (fun x y => In x l /\ In y l' /\ Q x y) l l'.
Proof.
  induction 1 as [|x y l l' Hxy H IH]; constructor.
  - simpl; auto.
  - apply (Forall2_weaken (fun a b => In a l /\ In b l' /\ Q a b)); [|exact IH].
    intros a b (Ha & Hb & Hq). simpl; auto.
Qed.

Lemma same_rows_core : forall l l', Forall2 rel_in l l' ->
  exists cs, Forall (fun c => length c = w) cs /\
             map c_row l = map (expand ng1) cs /\ map c_row l' = map (expand ng2) cs.
Proof.
  induction 1 as [|x x' l l' (_ & _ & _ & c & Hc & H1 & H2) H (cs & Fc & M1 & M2)].
  - exists []. repeat split; auto.
  - exists (c :: cs). repeat split; auto; simpl; congruence.
Qed.

Theorem same_alignment_all_relations_reproduced T :
  Forall2 same_row R T0 -> Permutation T0 T ->
  ident_total (compare_counters R T) = ref_total (compare_counters R T).
Proof.
  intros Hrel Hp. unfold compare_counters.
  rewrite <- (sort_both_canonical T0 T HT0 Hp).
  pose proof (msort_Forall2 rel_in cmp_both cmp_both rel_in_cmp R T0 (Forall2_in_both _ _ _ Hrel)) as Hs.
  destruct (same_rows_core _ _ Hs) as (cs & Fc & M1 & M2).
  rewrite M1, M2.
  apply (all_pairs_same cs zero_counters ng1 ng2 w); auto.
Qed.
End Same.
