(* C08, exact arithmetic: everything that is COMPUTED from the tables of the built code (Generated/Tables.v) - the finite
   checks of the five built-in schemes and the corollaries that rest on them.  Kept apart so that a change of a table
   breaks these statements only. *)
From Coq Require Import ZArith List Bool Lia.
From KV Require Import Base Params Weave Kernels Pipeline DupProofs ExactDiag ExactDiagInst ExactDiagProf ExactDiagRun.
Import ListNotations.
Local Open Scope Z_scope.

Lemma default_schemes_ok : forallb default_scheme_ok [PS_DNA; PS_DNA_INTERNAL; PS_RNA; PS_PROTEIN; PS_GON] = true.
Proof. vm_compute. reflexivity. Qed.

Theorem ss_identical_diagonal_default_schemes s m gpo gpe tgpe x :
  scheme_of s = Some (m, gpo, gpe, tgpe) ->
  Forall (fun c => (Z.to_nat c <? dim_of s)%nat = true) x ->
  let n := Z.of_nat (length x) in
  raw_path (AX unitX) (ss_kernel (AX unitX) (PX unitX m gpo gpe tgpe) x x) n n = Some (map Z.of_nat (seq 1 (length x))).
Proof.
  intros Hs Hx. apply (ss_identical_diagonal unitX ltac:(unfold unitX, KX; lia) m gpo gpe tgpe (gam_of (dim_of s) m gpo gpe tgpe) (dim_of s) (mx_of m)); [|exact Hx].
  pose proof default_schemes_ok as H. rewrite forallb_forall in H.
  assert (Hin : In s [PS_DNA; PS_DNA_INTERNAL; PS_RNA; PS_PROTEIN; PS_GON]) by (destruct s; cbn; tauto).
  specialize (H s Hin). unfold default_scheme_ok in H. rewrite Hs in H. exact H.
Qed.

(* the decoder agrees with Flocq's reading of the same bit patterns on every entry of the built-in schemes: the integer
   is 2000 * 2^40 times the real value (-1)^s * m * 2^e of the binary32 number (finite computation over the generated
   tables; 0 for +-0) *)
From KV Require Import FP.
From Flocq Require Import IEEE754.Binary.
Definition decodes_like_flocq (b : N) : bool :=
  match f32_of_bits b, exact_of_bits b with
  | B754_zero _ _ _, Some z => z =? 0
  | B754_finite _ _ s m e _, Some z => (0 <=? e + KX) && (z =? (if s then -1 else 1) * (2000 * Zpos m * 2 ^ (e + KX)))
  | _, _ => false
  end.
Definition params_decode_like_flocq (p : params) : bool :=
  forallb (forallb decodes_like_flocq) (p_subm p) && decodes_like_flocq (p_gpo p) && decodes_like_flocq (p_gpe p) && decodes_like_flocq (p_tgpe p).
Lemma builtin_entries_decode_like_flocq :
  forallb (fun s => match pset_defaults s with Some p => params_decode_like_flocq p | None => false end)
          [PS_DNA; PS_DNA_INTERNAL; PS_RNA; PS_PROTEIN; PS_GON] = true.
Proof. vm_compute. reflexivity. Qed.

(* kalign's built-in schemes (Generated/Tables.v, exact values of the binary32 entries) *)
Lemma dim_of_le23 s : (dim_of s <= 23)%nat.
Proof. destruct s; vm_compute; lia. Qed.

Theorem progressive_copies_default_schemes s m gpo gpe tgpe x n tasks out :
  scheme_of s = Some (m, gpo, gpe, tgpe) ->
  Forall (fun c => (Z.to_nat c <? dim_of s)%nat = true) x -> (1 <= length x)%nat ->
  progressive (AX unitX) (PX unitX m gpo gpe tgpe) (repeat x n) tasks = Some out ->
  Forall (diag_entry unitX x) out.
Proof.
  intros Hs Hx HL. 
  apply (progressive_copies unitX ltac:(unfold unitX, KX; lia) m gpo gpe tgpe (gam_of (dim_of s) m gpo gpe tgpe) (dim_of s) (mx_of m)); try assumption; [|apply dim_of_le23].
  pose proof default_schemes_ok as H. rewrite forallb_forall in H.
  assert (Hin : In s [PS_DNA; PS_DNA_INTERNAL; PS_RNA; PS_PROTEIN; PS_GON]) by (destruct s; cbn; tauto).
  specialize (H s Hin). unfold default_scheme_ok in H. rewrite Hs in H. exact H.
Qed.

(* the hypothesis "the run returns" is met: three copies of a nucleotide string with two ambiguity codes, two merges
   (sequence-sequence, then sequence-profile), under the built-in 'dna' scheme, evaluated in exact arithmetic *)
Example progressive_copies_instance :
  match scheme_of PS_DNA with
  | Some (m, gpo, gpe, tgpe) =>
    let x := [0; 1; 4; 2; 3; 3; 4]%Z in
    option_map (map (fun e => (snd (fst (fst e)), snd (fst e)))) (progressive (AX unitX) (PX unitX m gpo gpe tgpe) [x; x; x; x] [(0, 1, 4); (2, 3, 5); (4, 5, 6)]%nat)
    = Some [(diag 7, repeat 0%Z 7); (diag 7, repeat 0%Z 7); (diag 7, repeat 0%Z 7)]
  | None => False
  end.
Proof. vm_compute. reflexivity. Qed.
