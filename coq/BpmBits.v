(* Second model of lib/src/bpm.c in which a uint64_t is what it is - 64 bits, least significant first -
   and '+' is binary addition with carry propagation (the final carry is dropped, i.e. arithmetic
   modulo 2^64), '<< 1' moves every bit up by one and drops the top bit.  The statements of bpm()
   and bpm_block() are restated literally over these words.  This is the model the C11 theorems are
   about; like the N-based model of Bpm.v it is compared with the C code on every run.
   Executable; no proofs here. *)
From KV Require Import Base Bpm.
Local Open Scope Z_scope.

Definition word := list bool.

Fixpoint wzip (f : bool -> bool -> bool) (a b : word) : word :=
  match a, b with
  | x :: a', y :: b' => f x y :: wzip f a' b'
  | _, _ => []
  end.
Definition wand := wzip andb.
Definition wor := wzip orb.
Definition wxor := wzip xorb.
Definition wnotb (a : word) : word := map negb a.

Definition maj (x y c : bool) : bool := (x && y) || (x && c) || (y && c).
(* a + b + carry, final carry dropped *)
Fixpoint wadd_c (a b : word) (c : bool) : word :=
  match a, b with
  | x :: a', y :: b' => xorb (xorb x y) c :: wadd_c a' b' (maj x y c)
  | _, _ => []
  end.
(* (w << 1) | inbit, top bit dropped *)
Fixpoint wshl_in (w : word) (inbit : bool) : word :=
  match w with
  | [] => []
  | x :: w' => inbit :: wshl_in w' x
  end.
Definition wbit (w : word) (i : nat) : bool := nth i w false.
Definition b2z (b : bool) : Z := if b then 1 else 0.

(* ---- bpm(): one word, patterns up to 63 symbols ------------------------------------------------------- *)
Definition W := 64%nat.
(* B[c]: bit i set iff i < m and p[i] = c *)
Definition eq_word (c : Z) (p : list Z) : word :=
  map (fun i => match nth_error p i with Some x => x =? c | None => false end) (seq 0 W).

Definition bpm_step (p : list Z) (m : nat) (st : word * word * Z * Z) (c : Z) : word * word * Z * Z :=
  let '(VP, VN, diff, k) := st in
  let X := wor (eq_word c p) VN in
  let D0 := wor (wxor (wadd_c VP (wand X VP) false) VP) X in
  let HN := wand VP D0 in
  let HP := wor VN (wnotb (wor VP D0)) in
  let X1 := wshl_in HP false in
  let VN' := wand X1 D0 in
  let VP' := wor (wshl_in HN false) (wnotb (wor X1 D0)) in
  let diff' := diff + b2z (wbit HP (m - 1)) - b2z (wbit HN (m - 1)) in
  (VP', VN', diff', if diff' <? k then diff' else k).

Definition bpm64_bits (t p0 : list Z) : Z :=
  let p := firstn 63 p0 in
  let m := length p in
  let VP0 := repeat true m ++ repeat false (W - m) in
  let '(_, _, _, k) := fold_left (bpm_step p m) t (VP0, repeat false W, Z.of_nat m, Z.of_nat m) in
  k.

(* ---- bpm_block(): blocks of 64 rows chained by the horizontal delta at the block border ------------------- *)
(* Peq[c][block]: bit i set iff 64*block+i >= m or p[64*block+i] = c  (wildcard padding of the last block) *)
Definition peq_word (c : Z) (p : list Z) (m : nat) (block : nat) : word :=
  map (fun i => let pos := (64 * block + i)%nat in
                (m <=? pos)%nat || (match nth_error p pos with Some x => x =? c | None => false end)) (seq 0 W).

Record bblk := mkBB { bbP : word; bbM : word; bbScore : Z }.

Definition set_bit0 (w : word) : word := match w with [] => [] | _ :: t => true :: t end.

(* bpm_advance_block: hIn is the horizontal delta entering the block's first row (-1, 0 or +1) *)
Definition advance_bits (Eq0 : word) (hIn : Z) (Pv Mv : word) : word * word * Z :=
  let Xv := wor Eq0 Mv in
  let Eq := if hIn <? 0 then set_bit0 Eq0 else Eq0 in
  let Xh := wor (wxor (wadd_c (wand Eq Pv) Pv false) Pv) Eq in
  let Ph := wor Mv (wnotb (wor Xh Pv)) in
  let Mh := wand Pv Xh in
  let hout := b2z (wbit Ph 63) - b2z (wbit Mh 63) in
  let Ph1 := wshl_in Ph (0 <? hIn) in
  let Mh1 := wshl_in Mh (hIn <? 0) in
  let Pv' := wor Mh1 (wnotb (wor Xv Ph1)) in
  let Mv' := wand Ph1 Xv in
  (Pv', Mv', hout).

Fixpoint column_bits (eqs : list word) (blocks : list bblk) (carry : Z) : list bblk * Z :=
  match eqs, blocks with
  | e :: eqs', b :: blocks' =>
    let '(Pv, Mv, h) := advance_bits e carry (bbP b) (bbM b) in
    let '(rest, c') := column_bits eqs' blocks' h in
    (mkBB Pv Mv (bbScore b + h) :: rest, c')
  | _, _ => ([], carry)
  end.

Definition bpm_block_bits (t p : list Z) : Z :=
  let m := Nat.min (length p) 1024 in
  let b_max := div_ceil m 64 in
  let Wpad := (64 * b_max - m)%nat in
  let y0 := (b_max - 1)%nat in
  let init := map (fun b => mkBB (repeat true W) (repeat false W) (Z.of_nat ((b + 1) * 64))) (seq 0 (S y0)) in
  let step := fun (st : list bblk * nat * Z) (c : Z) =>
    let '(blocks, y, k) := st in
    let eqs := map (fun b => peq_word c p m b) (seq 0 (S y)) in
    let '(act, carry) := column_bits eqs (firstn (S y) blocks) 0 in
    let blocks' := act ++ skipn (S y) blocks in
    let y' := shrink (S y) (map bbScore blocks') y (Z.of_nat m + 64) in
    let sy := nth y' (map bbScore blocks') 0 in
    (blocks', y', if sy <? k then sy else k) in
  let text := t ++ repeat 0 Wpad in
  let '(_, _, k) := fold_left step text (init, y0, Z.of_nat m) in
  k.
