From KV Require Export ParamsDoc.
From KV Require Import Base Params Snapshot.
From KV Require Import Generated.Doc.
From Coq Require Import String.
Local Open Scope Z_scope.

Definition params_eqb (a b : params) : bool :=
  N.eqb (p_gpo a) (p_gpo b) && N.eqb (p_gpe a) (p_gpe b) && N.eqb (p_tgpe a) (p_tgpe b) &&
  list_eqb (list_eqb N.eqb) (p_subm a) (p_subm b).

Lemma params_eqb_eq a b : params_eqb a b = true -> a = b.
Proof.
  destruct a, b; unfold params_eqb; simpl; intro H.
  repeat (apply andb_true_iff in H as [H ?]).
  apply N.eqb_eq in H. repeat match goal with E : N.eqb _ _ = true |- _ => apply N.eqb_eq in E end.
  match goal with E : list_eqb _ _ _ = true |- _ =>
    apply (list_eqb_eq _ (list_eqb_eq _ (fun x y => proj1 (N.eqb_eq x y)))) in E end.
  subst; reflexivity.
Qed.

Definition all_psets := [PS_DNA; PS_DNA_INTERNAL; PS_RNA; PS_PROTEIN; PS_GON].

Lemma defaults_are_documented_b :
  forallb (fun s => match pset_defaults s with
                    | Some d => params_eqb d (doc_params s)
                    | None => false end) all_psets = true.
Proof. vm_compute. reflexivity. Qed.

Lemma defaults_are_documented s : pset_defaults s = Some (doc_params s).
Proof.
  pose proof defaults_are_documented_b as H.
  rewrite forallb_forall in H.
  assert (In s all_psets) as Hin by (destruct s; simpl; tauto).
  specialize (H s Hin). destruct (pset_defaults s) as [d|]; [|discriminate].
  apply params_eqb_eq in H. congruence.
Qed.

(* the model's switch agrees with the documented admissibility, for the six type constants *)
Definition type_constants := [KALIGN_TYPE_DNA; KALIGN_TYPE_DNA_INTERNAL; KALIGN_TYPE_RNA;
                              KALIGN_TYPE_PROTEIN; KALIGN_TYPE_PROTEIN_DIVERGENT; KALIGN_TYPE_UNDEFINED].
Definition kinds := [ALN_BIOTYPE_PROTEIN; ALN_BIOTYPE_DNA].

Definition pset_eqb (a b : pset) : bool :=
  match a, b with
  | PS_DNA, PS_DNA | PS_DNA_INTERNAL, PS_DNA_INTERNAL | PS_RNA, PS_RNA
  | PS_PROTEIN, PS_PROTEIN | PS_GON, PS_GON => true
  | _, _ => false
  end.
Definition opset_eqb (a b : option pset) : bool :=
  match a, b with Some x, Some y => pset_eqb x y | None, None => true | _, _ => false end.
Lemma opset_eqb_eq a b : opset_eqb a b = true -> a = b.
Proof. destruct a as [[]|], b as [[]|]; simpl; congruence. Qed.

Lemma select_is_fits_b :
  forallb (fun bt => forallb (fun ty => opset_eqb (select bt ty) (fits bt ty)) type_constants) kinds = true.
Proof. vm_compute. reflexivity. Qed.

Lemma select_is_fits bt ty : In bt kinds -> In ty type_constants -> select bt ty = fits bt ty.
Proof.
  intros Hb Ht. pose proof select_is_fits_b as H.
  rewrite forallb_forall in H. specialize (H bt Hb).
  rewrite forallb_forall in H. specialize (H ty Ht).
  apply opset_eqb_eq; exact H.
Qed.

(* ---- C09 lemmas ------------------------------------------------------------------------ *)
Lemma init_defaults bt ty s ng1 ng2 ng3 :
  In bt kinds -> In ty type_constants -> fits bt ty = Some s ->
  f32_ge0 ng1 = false -> f32_ge0 ng2 = false -> f32_ge0 ng3 = false ->
  init bt ty ng1 ng2 ng3 = Some (doc_params s).
Proof.
  intros Hb Ht Hf H1 H2 H3. unfold init.
  rewrite (select_is_fits bt ty Hb Ht), Hf, defaults_are_documented, H1, H2, H3.
  destruct (doc_params s); reflexivity.
Qed.

Lemma init_mismatch bt ty g e t :
  In bt kinds -> In ty type_constants -> fits bt ty = None -> init bt ty g e t = None.
Proof.
  intros Hb Ht Hf. unfold init. rewrite (select_is_fits bt ty Hb Ht), Hf. reflexivity.
Qed.

(* protein types on nucleotides and nucleotide types on protein are exactly the non-fitting
   combinations of the six constants *)
Lemma mismatch_cases :
  fits ALN_BIOTYPE_DNA KALIGN_TYPE_PROTEIN = None /\
  fits ALN_BIOTYPE_DNA KALIGN_TYPE_PROTEIN_DIVERGENT = None /\
  fits ALN_BIOTYPE_PROTEIN KALIGN_TYPE_DNA = None /\
  fits ALN_BIOTYPE_PROTEIN KALIGN_TYPE_DNA_INTERNAL = None /\
  fits ALN_BIOTYPE_PROTEIN KALIGN_TYPE_RNA = None /\
  (forall bt ty, In bt kinds -> In ty type_constants -> fits bt ty = None ->
     (bt = ALN_BIOTYPE_DNA /\ (ty = KALIGN_TYPE_PROTEIN \/ ty = KALIGN_TYPE_PROTEIN_DIVERGENT)) \/
     (bt = ALN_BIOTYPE_PROTEIN /\ (ty = KALIGN_TYPE_DNA \/ ty = KALIGN_TYPE_DNA_INTERNAL \/ ty = KALIGN_TYPE_RNA))).
Proof.
  repeat split; try (vm_compute; reflexivity).
  intros bt ty Hb Ht.
  simpl in Hb, Ht.
  destruct Hb as [<-|[<-|[]]];
  destruct Ht as [<-|[<-|[<-|[<-|[<-|[<-|[]]]]]]]; vm_compute; intro H; try discriminate H; tauto.
Qed.

(* An override replaces exactly that value.  Stated for every combination of the other two
   arguments (given or not) and every bit pattern, including -0.0, inf and NaNs. *)
Lemma init_override bt ty g e t p :
  init bt ty g e t = Some p ->
  exists d, (forall n1 n2 n3, f32_ge0 n1 = false -> f32_ge0 n2 = false -> f32_ge0 n3 = false ->
               init bt ty n1 n2 n3 = Some d) /\
    p_gpo p = (if f32_ge0 g then g else p_gpo d) /\
    p_gpe p = (if f32_ge0 e then e else p_gpe d) /\
    p_tgpe p = (if f32_ge0 t then t else p_tgpe d) /\
    p_subm p = p_subm d.
Proof.
  unfold init. destruct (select bt ty) as [s|]; [|discriminate].
  destruct (pset_defaults s) as [d|]; [|discriminate].
  intro H; inversion H; subst; clear H. exists d. simpl. repeat split.
  intros n1 n2 n3 -> -> ->. destruct d; reflexivity.
Qed.

Lemma init_explicit_default bt ty d n1 n2 n3 :
  f32_ge0 n1 = false -> f32_ge0 n2 = false -> f32_ge0 n3 = false ->
  init bt ty n1 n2 n3 = Some d ->
  f32_ge0 (p_gpo d) = true -> f32_ge0 (p_gpe d) = true -> f32_ge0 (p_tgpe d) = true ->
  init bt ty (p_gpo d) (p_gpe d) (p_tgpe d) = Some d.
Proof.
  unfold init. intros -> -> ->.
  destruct (select bt ty) as [s|]; [|discriminate].
  destruct (pset_defaults s) as [d0|]; [|discriminate].
  intro H; inversion H; subst; clear H. simpl. intros -> -> ->. destruct d0; reflexivity.
Qed.

(* every default penalty is a non-negative number, so it can be passed explicitly *)
Lemma defaults_nonneg s :
  f32_ge0 (p_gpo (doc_params s)) = true /\ f32_ge0 (p_gpe (doc_params s)) = true /\
  f32_ge0 (p_tgpe (doc_params s)) = true.
Proof. destruct s; vm_compute; auto. Qed.

(* the result depends on a penalty argument only through "given or not" and, if given, its value *)
Lemma init_not_given_irrelevant bt ty g e t g' e' t' :
  (f32_ge0 g = false -> f32_ge0 g' = false) -> (f32_ge0 g = true -> g' = g) ->
  (f32_ge0 e = false -> f32_ge0 e' = false) -> (f32_ge0 e = true -> e' = e) ->
  (f32_ge0 t = false -> f32_ge0 t' = false) -> (f32_ge0 t = true -> t' = t) ->
  init bt ty g e t = init bt ty g' e' t'.
Proof.
  intros G0 G1 E0 E1 T0 T1. unfold init.
  destruct (select bt ty); [|reflexivity]. destruct (pset_defaults p); [|reflexivity].
  destruct (f32_ge0 g) eqn:Hg; [rewrite (G1 eq_refl), Hg | rewrite (G0 eq_refl)];
  (destruct (f32_ge0 e) eqn:He; [rewrite (E1 eq_refl), He | rewrite (E0 eq_refl)]);
  (destruct (f32_ge0 t) eqn:Ht; [rewrite (T1 eq_refl), Ht | rewrite (T0 eq_refl)]); reflexivity.
Qed.

(* ---- --type words ---------------------------------------------------------------------- *)
Lemma type_words_b :
  forallb (fun w => match set_aln_type (Some (bytes_of_string w)), doc_word_type w with
                    | Some t, Some t' => t =? t'
                    | _, _ => false end) doc_type_words = true.
Proof. vm_compute. reflexivity. Qed.

Lemma type_words w : In w doc_type_words ->
  exists t, doc_word_type w = Some t /\ set_aln_type (Some (bytes_of_string w)) = Some t.
Proof.
  intro Hin. pose proof type_words_b as H. rewrite forallb_forall in H. specialize (H w Hin).
  destruct (set_aln_type _) as [t|]; [|discriminate].
  destruct (doc_word_type w) as [t'|]; [|discriminate].
  apply Z.eqb_eq in H. subst. eauto.
Qed.

Lemma doc_words_complete :
  forall w, In w ["rna"; "dna"; "internal"; "protein"; "divergent"]%string -> In w doc_type_words.
Proof. intros w H. simpl in H. vm_compute. intuition. Qed.

Lemma cli_not_given_is_negative : f32_ge0 cli_default_penalty = false.
Proof. reflexivity. Qed.

Lemma cli_no_type : set_aln_type None = Some KALIGN_TYPE_UNDEFINED.
Proof. reflexivity. Qed.
