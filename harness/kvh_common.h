#ifndef KVH_COMMON_H
#define KVH_COMMON_H
#include <stdio.h>
#include <stdlib.h>
#include <stdint.h>
#include <string.h>
#include <ctype.h>
#include <math.h>
#include <float.h>
#include <unistd.h>

#include "tldevel.h"
#include "kalign/kalign.h"
#include "msa_struct.h"
#include "msa_op.h"
#include "msa_alloc.h"
#include "msa_io.h"
#include "msa_check.h"
#include "msa_sort.h"
#include "msa_cmp.h"
#include "msa_misc.h"
#include "alphabet.h"
#include "aln_param.h"
#include "aln_struct.h"
#include "aln_mem.h"
#include "aln_setup.h"
#include "aln_controller.h"
#include "weave_alignment.h"
#include "task.h"
#include "bpm.h"
#include "kalign_verif.h"

static inline uint32_t fbits(float f){ uint32_t u; memcpy(&u,&f,4); return u; }
static inline float bitsf(uint32_t u){ float f; memcpy(&f,&u,4); return f; }
static inline uint64_t dbits(double f){ uint64_t u; memcpy(&u,&f,8); return u; }

/* hex string <-> bytes */
static inline int hexval(int c){ if(c >= '0' && c <= '9') return c-'0'; if(c >= 'a' && c <= 'f') return c-'a'+10; if(c >= 'A' && c <= 'F') return c-'A'+10; return -1; }
static inline int unhex(const char* h, char** out)
{
        int n = (int)strlen(h) / 2;
        char* b = malloc(n+1);
        for(int i = 0; i < n;i++){ b[i] = (char)((hexval(h[2*i]) << 4) | hexval(h[2*i+1])); }
        b[n] = 0;
        *out = b;
        return n;
}
static inline void puthex(FILE* f, const char* b, int n)
{
        for(int i = 0; i < n;i++){ fprintf(f,"%02x", (unsigned char)b[i]); }
}

/* silence kalign's stderr/stdout chatter around a call */
static int kv_saved_err = -1;
static inline void quiet_on(void){ }
static inline void quiet_off(void){ fflush(stdout); }

#endif
