"""C02 - same alignment for every thread count and every schedule."""
import json, os, shutil, tempfile, hashlib
import gen

def big_inputs(rng, quick):
    """inputs that reach every parallel region: >= 100 sequences (bisecting k-means, omp-for distance matrix),
    >= 500 columns (parallel Hirschberg halves), plus ordinary small ones (tree-parallel merges only)"""
    out = []
    for kind in ('dna', 'protein'):
        alpha = gen.DNA if kind == 'dna' else gen.PROT
        tail = 'WKW' if kind == 'protein' else ''
        # k-means: 100..140 short sequences
        root = gen.rand_seq(rng, alpha, rng.range(25, 40))
        out.append(('kmeans', kind, [gen.mutate(rng, root, alpha, 12, 8) + tail for _ in range(rng.choice([100, 101, 128, 140]))]))
        # k-means with groups of identical sequences (adjacent after the length/name sort; rows of the anchor distance matrix)
        root = gen.rand_seq(rng, alpha, rng.range(25, 40))
        base = [gen.mutate(rng, root, alpha, 14, 8) + tail for _ in range(40)]
        dups = []
        for x in base: dups += [x] * rng.choice([1, 2, 3, 5])
        while len(dups) < 110: dups.append(rng.choice(base))
        rng.shuffle(dups)
        out.append(('kmeans-duplicates', kind, dups[:rng.choice([110, 130, 150])]))
        # parallel runner: few long sequences around the 500 switch and well above it
        for L in ([499, 501, 1100] if quick else [499, 500, 501, 640, 1100, 2100]):
            root = gen.rand_seq(rng, alpha, L)
            out.append(('long', kind, [gen.mutate(rng, root, alpha, 6, 3) + tail for _ in range(rng.choice([2, 3, 5]))]))
        # profile-profile above 500 columns with many members
        root = gen.rand_seq(rng, alpha, 560)
        out.append(('long-many', kind, [gen.mutate(rng, root, alpha, 8, 4) + tail for _ in range(12)]))
        # ... and divergent members, so that the profile columns hold many different residues
        root = gen.rand_seq(rng, alpha, 700)
        out.append(('long-many-divergent', kind, [gen.mutate(rng, root, alpha, 45, 6) + tail for _ in range(16)]))
    # k-means AND sequences beyond the 1024-symbol cap of the distance kernel (its longest code path, run concurrently by the
    # distance-matrix loop and the k-means leaf tasks)
    for kind in (('dna', 'protein') if not quick else (rng.choice(['dna', 'protein']),)):
        alpha = gen.DNA if kind == 'dna' else gen.PROT
        root = gen.rand_seq(rng, alpha, rng.choice([1040, 1100, 1300]))
        out.append(('kmeans-long', kind, [gen.mutate(rng, root, alpha, 10, 4) + ('WKW' if kind == 'protein' else '') for _ in range(rng.choice([100, 104, 112]))]))
    for _ in range(6 if quick else 40):
        kind = 'dna' if rng.chance(1, 2) else 'protein'
        fam, seqs = gen.family(rng, kind, small=False)
        out.append(('family:' + fam, kind, [s for s in seqs if s] or ['ACGT', 'ACG']))
    return out

def check_trace(ev_text):
    """happens-before constraints of the fork-join model on one logged run:
    a merge begins only after the merges of both its children ended; a meetup on an aln_mem begins only after
    a forward and a backward pass on that aln_mem ended and none is running"""
    ended = set(); started = {}
    dp = {}
    n_events = 0
    for tok in ev_text.split('|'):
        f = tok.split()
        if not f: continue
        n_events += 1
        if f[0] == 'MB':
            a, b, c = int(f[1]), int(f[2]), int(f[3])
            started[c] = (a, b)
        elif f[0] == 'ME':
            ended.add(int(f[3]))
        elif f[0] in ('FB', 'FE', 'BB', 'BE', 'XB', 'XE'):
            st = dp.setdefault(f[1], {'f_open': 0, 'b_open': 0, 'f_done': 0, 'b_done': 0})
            if f[0] == 'FB': st['f_open'] += 1
            elif f[0] == 'FE': st['f_open'] -= 1; st['f_done'] += 1
            elif f[0] == 'BB': st['b_open'] += 1
            elif f[0] == 'BE': st['b_open'] -= 1; st['b_done'] += 1
            elif f[0] == 'XB':
                if st['f_open'] or st['b_open'] or not st['f_done'] or not st['b_done']:
                    return 'meetup on aln_mem %s began before its forward and backward pass had both finished' % f[1], n_events
                st['f_done'] = st['b_done'] = 0
    # child-before-parent: needs the order, second pass
    ended = set(); internal = set(started)
    for tok in ev_text.split('|'):
        f = tok.split()
        if not f: continue
        if f[0] == 'MB':
            a, b, c = int(f[1]), int(f[2]), int(f[3])
            for ch in (a, b):
                if ch in internal and ch not in ended:
                    return 'merge %d began before the merge producing its child %d had ended' % (c, ch), n_events
        elif f[0] == 'ME':
            ended.add(int(f[3]))
    return None, n_events

def run(ck):
    ck.build(('omp', 'plain'))
    ck.translate()
    ok = ck.prove()
    kvh = ck.harness('omp', 'kvh')
    kvp = ck.harness('plain', 'kvh')
    rng = ck.rng
    quick = ck.tier == 'quick'
    ck.rule = ('inputs reaching every parallel region (>= 100 sequences: bisecting k-means and the omp-for distance matrix; >= 500 columns: parallel Hirschberg halves; many small '
               'ones: tree-parallel merges). Each input is aligned with n_threads in {1,2,3,8,16,64}, twice with injected delays at MERGE_BEGIN/FWD_BEGIN/BWD_BEGIN that permute task '
               'completion order, under OMP_WAIT_POLICY/OMP_DYNAMIC variations, and by the build without OpenMP (and without AVX2); the result digests must all be equal. On every logged '
               'run the happens-before constraints of the proved fork-join model are validated on the hook trace (merge after both children; meetup after both halves). '
               'Non-trivial = a run with > 1 thread whose trace shows events from >= 2 threads; distinct by (input, configuration)')
    inputs = big_inputs(rng, quick)
    wit = []
    ng = gen.NG
    def line(seqs, kind, thr, flags):
        return 'run %d %d %d %d %d %d %s' % (flags, thr, 5, ng, ng, ng, ' '.join(gen.hexs(s) for s in seqs))
    configs = []   # (label, exe, env, pre-lines, threads)
    for thr in (1, 2, 3, 8, 16, 64):
        configs.append(('omp n=%d' % thr, kvh, None, [], thr))
    configs.append(('omp n=8 delays seed 1', kvh, None, ['delay 300 1'], 8))
    configs.append(('omp n=16 delays seed 2', kvh, None, ['delay 500 2'], 16))
    configs.append(('omp n=5 passive', kvh, dict(os.environ, OMP_WAIT_POLICY='passive', OMP_DYNAMIC='true'), [], 5))
    configs.append(('omp n=4 active', kvh, dict(os.environ, OMP_WAIT_POLICY='active', OMP_PROC_BIND='spread'), [], 4))
    # the parallel region of aln_runner is nested inside the one of create_msa_tree: its two halves only run concurrently with nested parallelism on
    configs.append(('omp n=8 nested levels=2', kvh, dict(os.environ, OMP_MAX_ACTIVE_LEVELS='2', OMP_NESTED='true'), [], 8))
    configs.append(('omp n=6 nested levels=3 delays seed 3', kvh, dict(os.environ, OMP_MAX_ACTIVE_LEVELS='3', OMP_NESTED='true'), ['delay 400 3'], 6))
    configs.append(('no-openmp no-avx2', kvp, None, [], 1))
    results = {}
    for label, exe, env, pre, thr in configs:
        # the injected delays are per hook event; the k-means input with > 1024 residues per sequence has very many of them and
        # is run under the plain thread-count / runtime-setting configurations only
        sel = [i for i, (fam, _, _) in enumerate(inputs) if not (pre and fam == 'kmeans-long')]
        lines = pre + [line(inputs[i][2], inputs[i][1], thr, 2) for i in sel]
        out = ck.run_lines(exe, lines, timeout=3000, env=env)[len(pre):]
        ck.evaluations += len(sel)
        res = [None] * len(inputs)
        for i, o in zip(sel, out): res[i] = o
        results[label] = res
        ck.count('configuration:' + label, len(inputs))
    st = ck.corr.setdefault('Par fork-join model vs hook traces (merge after children, meetup after halves)', {'cases': 0, 'disagreements': 0})
    ref_label = configs[0][0]
    for i, (fam, kind, seqs) in enumerate(inputs):
        ck.count('input:' + fam.split(':')[0])
        ref = results[ref_label][i].split('|')[0]
        for label, exe, env, pre, thr in configs:
            r = results[label][i]
            if r is None: continue
            rows = r.split('|')[0]
            if r.startswith('CRASH') or not rows.startswith('OK'):
                wit.append({'kind': 'run-failed', 'configuration': label, 'family': fam, 'n_sequences': len(seqs), 'implementation': r[:300], 'seqs': seqs if len(seqs) < 8 else seqs[:8]})
                continue
            if rows != ref:
                wit.append({'kind': 'alignment-depends-on-threads-or-schedule', 'configuration': label, 'reference_configuration': ref_label, 'family': fam, 'n_sequences': len(seqs),
                            'lengths': [len(s) for s in seqs][:20], 'seqs': seqs if len(seqs) <= 12 else None, 'seqs_sha1': hashlib.sha1('\n'.join(seqs).encode()).hexdigest(),
                            'digest_reference': hashlib.sha1(ref.encode()).hexdigest(), 'digest_this': hashlib.sha1(rows.encode()).hexdigest()})
            ev = r[len(rows):]
            st['cases'] += 1
            bad, nev = check_trace(ev)
            if bad:
                st['disagreements'] += 1
                wit.append({'kind': 'trace-violates-fork-join-order', 'what': bad, 'configuration': label, 'family': fam, 'n_sequences': len(seqs), 'trace_head': ev[:1500]})
            tids = set(t for t in ev.replace('|', ' ').split() if t.startswith('t') and t[1:].isdigit())
            if thr > 1 and len(tids) >= 2:
                ck.nontriv((i, label).__repr__())
    if inputs:
        r0 = results[configs[3][0]][0]
        ck.sample({'family': inputs[0][0], 'n_sequences': len(inputs[0][2]), 'configuration': configs[3][0], 'result_digest': hashlib.sha1(r0.split('|')[0].encode()).hexdigest(), 'trace_head': r0[len(r0.split('|')[0]):][:400]})
    seen = {}
    for w in wit:
        seen[w['kind']] = seen.get(w['kind'], 0) + 1
        if seen[w['kind']] <= 2:
            ck.violation('witness', w)
    if not wit and not ok:
        ck.violation('proof', {'what_no_longer_checks': ck.proof['failed'], 'note': 'the fork-join skeleton regenerated from the OpenMP pragmas no longer satisfies the proved join discipline; '
                               'the schedule runs of this check did not exhibit a differing alignment'}, nofail=True)

def replay(ck, obj):
    print(json.dumps(obj, indent=1)[:6000])
    return 0
