(* Fork-join structure of kalign's parallel regions (C02).
   Part 1: meaning of the nested items that tools/translate.py regenerates from the OpenMP pragmas
           of recursive_aln, aln_runner, bisecting_kmeans, ... (Generated/Omp.v): the event traces a
           task body can produce, and a static check ("no critical call while a child task may be
           outstanding; no return with a child outstanding").
   Part 2: series-parallel terms, their linearisations (= the schedules an OpenMP runtime may
           produce for a fork-join program), and execution over a store of cells.
   Part 3: the progressive-alignment run of an arbitrary guide tree as a series-parallel term built
           from the shape of recursive_aln, with the footprint of do_align.
   Executable where it matters; no proofs here. *)
From Coq Require Import List String Bool Arith Lia.
From KV Require Import Generated.Omp.
Import ListNotations.
Local Open Scope string_scope.

(* ---- Part 1: task bodies ---------------------------------------------------------------------- *)
Inductive ev := ESpawn (f : string) | EWait | ECall (f : string) | EReturn.

(* the traces of a body: conditionals run zero or one time, loops zero or more times, a return ends the body *)
Inductive runs : list item -> list ev -> bool (* returned? *) -> Prop :=
| r_nil : runs [] [] false
| r_spawn f r tr b : runs r tr b -> runs (ISpawn f :: r) (ESpawn f :: tr) b
| r_wait r tr b : runs r tr b -> runs (IWait :: r) (EWait :: tr) b
| r_call f r tr b : runs r tr b -> runs (ICall f :: r) (ECall f :: tr) b
| r_return r : runs (IReturn :: r) [EReturn] true
| r_par s r tr b : runs r tr b -> runs (IPar s :: r) tr b
| r_unknown s r tr b : runs r tr b -> runs (IUnknown s :: r) tr b
| r_maybe_skip body r tr b : runs r tr b -> runs (IMaybe body :: r) tr b
| r_maybe_take body r t1 t2 b : runs body t1 false -> runs r t2 b -> runs (IMaybe body :: r) (t1 ++ t2) b
| r_maybe_ret body r t1 : runs body t1 true -> runs (IMaybe body :: r) t1 true
| r_loop_exit body r tr b : runs r tr b -> runs (ILoop body :: r) tr b
| r_loop_iter body r t1 t2 b : runs body t1 false -> runs (ILoop body :: r) t2 b -> runs (ILoop body :: r) (t1 ++ t2) b
| r_loop_ret body r t1 : runs body t1 true -> runs (ILoop body :: r) t1 true.

Section Check.
Variable critical : string -> bool.      (* calls that must not overlap a child task *)

(* concrete monitor over one trace: [out] = a child task has been spawned and not yet waited for *)
Fixpoint trace_ok (out : bool) (tr : list ev) : bool :=
  match tr with
  | [] => true
  | ESpawn _ :: r => trace_ok true r
  | EWait :: r => trace_ok false r
  | ECall f :: r => if critical f && out then false else trace_ok out r
  | EReturn :: r => if out then false else trace_ok out r
  end.
Fixpoint trace_out (out : bool) (tr : list ev) : bool :=
  match tr with
  | [] => out
  | ESpawn _ :: r => trace_out true r
  | EWait :: r => trace_out false r
  | _ :: r => trace_out out r
  end.

(* abstract run over the body: None = a critical call / return may happen with a child outstanding,
   or the body holds something the translator did not understand *)
Fixpoint absrun (fuel : nat) (out : bool) (l : list item) : option bool :=
  match fuel with
  | O => None
  | S fu =>
    match l with
    | [] => Some out
    | ISpawn _ :: r => absrun fu true r
    | IWait :: r => absrun fu false r
    | ICall f :: r => if critical f && out then None else absrun fu out r
    | IReturn :: _ => if out then None else Some false
    | IPar _ :: r => absrun fu out r
    | IUnknown _ :: _ => None
    | IMaybe body :: r =>
      match absrun fu out body with
      | None => None
      | Some o1 => absrun fu (out || o1) r
      end
    | ILoop body :: r =>
      match absrun fu out body with
      | None => None
      | Some o1 => match absrun fu (out || o1) body with
                   | None => None
                   | Some o2 => absrun fu (out || o1 || o2) r
                   end
      end
    end
  end.

(* a body is well joined: started with no child outstanding it never makes a critical call or
   returns with one outstanding, and ends with none outstanding *)
Definition well_joined (l : list item) : bool :=
  match absrun 2000 false l with Some false => true | _ => false end.   (* fuel: one unit per item visited *)
End Check.

(* ---- Part 2: series-parallel terms ------------------------------------------------------------------ *)
Section SP.
Variable act : Type.
Inductive sp := Nil | Act (a : act) | SeqC (x y : sp) | ParC (x y : sp).

Fixpoint flatten (t : sp) : list act :=
  match t with Nil => [] | Act a => [a] | SeqC x y => flatten x ++ flatten y | ParC x y => flatten x ++ flatten y end.

Inductive shuffle : list act -> list act -> list act -> Prop :=
| sh_nil : shuffle [] [] []
| sh_l a l r m : shuffle l r m -> shuffle (a :: l) r (a :: m)
| sh_r a l r m : shuffle l r m -> shuffle l (a :: r) (a :: m).

(* the schedules: a task may run at any point between its creation and the taskwait that joins it *)
Inductive lin : sp -> list act -> Prop :=
| l_nil : lin Nil []
| l_act a : lin (Act a) [a]
| l_seq x y lx ly : lin x lx -> lin y ly -> lin (SeqC x y) (lx ++ ly)
| l_par x y lx ly m : lin x lx -> lin y ly -> shuffle lx ly m -> lin (ParC x y) m.

Variable state : Type.
Variable exec : act -> state -> state.
Definition exec_list (l : list act) (s : state) : state := fold_left (fun s a => exec a s) l s.

Variable indep : act -> act -> Prop.
Fixpoint par_independent (t : sp) : Prop :=
  match t with
  | Nil => True | Act _ => True
  | SeqC x y => par_independent x /\ par_independent y
  | ParC x y => par_independent x /\ par_independent y /\
                forall a b, In a (flatten x) -> In b (flatten y) -> indep a b
  end.
End SP.
Arguments Nil {act}. Arguments Act {act}. Arguments SeqC {act}. Arguments ParC {act}.

(* ---- Part 3: the progressive alignment of a guide tree ------------------------------------------------ *)
(* guide tree over node identifiers; a leaf is a sequence, an internal node the merge producing profile c *)
Inductive gtree := Leaf (id : nat) | Node (c : nat) (l r : gtree).
Definition root_id (t : gtree) : nat := match t with Leaf i => i | Node c _ _ => c end.

(* an action = one do_align: merge the groups a and b into c *)
Record merge := mkMerge { m_a : nat; m_b : nat; m_c : nat }.

(* recursive_aln: [task recursive_aln(a)] [task recursive_aln(b)] taskwait; do_align(c) *)
Fixpoint unfold (t : gtree) : sp merge :=
  match t with
  | Leaf _ => Nil
  | Node c l r => SeqC (ParC (unfold l) (unfold r)) (Act (mkMerge (root_id l) (root_id r) c))
  end.

(* the store: one cell per node (profile, member list, nsip, plen of that node and - through the
   member list - the gap vectors of the leaves below it) *)
Section Store.
Variable cell : Type.
Variable combine : cell -> cell -> cell.      (* what do_align computes for c from the cells of a and b *)
Definition store := nat -> cell.
Definition exec_merge (m : merge) (s : store) : store :=
  fun k => if Nat.eqb k (m_c m) then combine (s (m_a m)) (s (m_b m)) else s k.
(* footprints: do_align(c) reads the cells a, b and writes c (and, via make_seq, the gap vectors of
   the leaves of a and b, which belong to the cells a and b in this model: see [owned]) *)
Definition indep_merge (x y : merge) : Prop :=
  m_c x <> m_c y /\ m_c x <> m_a y /\ m_c x <> m_b y /\ m_c y <> m_a x /\ m_c y <> m_b x.
End Store.

Fixpoint nodes (t : gtree) : list nat :=
  match t with Leaf i => [i] | Node c l r => c :: nodes l ++ nodes r end.
