From KV Require Import Base FP Sort SortProofs Weave WeaveProofs Cmp.
From Coq Require Import Permutation Sorted.
Local Open Scope Z_scope.

Lemma isalpha_dash : isalpha dash = false.
Proof. vm_compute. reflexivity. Qed.

(* ---- counting ------------------------------------------------------------------------------------ *)
Lemma agree_le : forall ca cb, (fst (agree ca cb) + snd (agree ca cb) <= N.of_nat (length ca))%N /\
                               (fst (agree ca cb) + snd (agree ca cb) <= N.of_nat (length cb))%N.
Proof.
  induction ca as [|a ca IH]; intros [|b cb]; simpl; try lia.
  specialize (IH cb). destruct (agree ca cb) as [ia ig]. simpl in IH.
  destruct (negb (a =? -1)), (a =? b); simpl; lia.
Qed.

Lemma agree_refl : forall c, (fst (agree c c) + snd (agree c c) = N.of_nat (length c))%N.
Proof.
  induction c as [|a c IH]; simpl; auto.
  destruct (agree c c) as [ia ig]. simpl in IH. rewrite Z.eqb_refl.
  destruct (negb (a =? -1)); simpl; lia.
Qed.

(* the reference totals of one pair are the number of relations listed by the two code tables *)
Lemma pair_totals_codes : forall x y p q,
  (fst (pair_totals x y) + snd (pair_totals x y) =
   N.of_nat (length (codes1 x y p)) + N.of_nat (length (codes1 y x q)))%N.
Proof.
  induction x as [|a x IH]; intros [|b y] p q; simpl; try lia.
  specialize (IH y (if isalpha b then p + 1 else p) (if isalpha a then q + 1 else q)).
  destruct (pair_totals x y) as [al gp]. simpl in IH.
  destruct (isalpha a), (isalpha b); cbn [length fst snd andb orb] in *; rewrite ?Nat2N.inj_succ; lia.
Qed.

Definition ident_total c := (ident_aligned c + ident_gap c)%N.
Definition ref_total c := (ref_aligned c + ref_gap c)%N.

Lemma compare_pair_bound c xa ya xb yb :
  (ident_total (compare_pair c xa ya xb yb) - ident_total c <=
   ref_total (compare_pair c xa ya xb yb) - ref_total c)%N /\
  (ident_total c <= ident_total (compare_pair c xa ya xb yb))%N /\
  (ref_total c <= ref_total (compare_pair c xa ya xb yb))%N.
Proof.
  unfold compare_pair, ident_total, ref_total.
  pose proof (pair_totals_codes xa ya 0 0) as HT.
  destruct (pair_totals xa ya) as [ra rg]. destruct (pair_totals xb yb) as [ta tg].
  pose proof (agree_le (codes1 xa ya 0) (codes1 xb yb 0)) as [H1 _].
  pose proof (agree_le (codes1 ya xa 0) (codes1 yb xb 0)) as [H2 _].
  destruct (agree (codes1 xa ya 0) (codes1 xb yb 0)) as [i1 g1].
  destruct (agree (codes1 ya xa 0) (codes1 yb xb 0)) as [i2 g2].
  simpl in *. lia.
Qed.

Lemma pairs_from_bound : forall ra rb c xa xb,
  (ident_total c <= ref_total c)%N ->
  (ident_total (pairs_from c xa xb ra rb) <= ref_total (pairs_from c xa xb ra rb))%N.
Proof.
  induction ra as [|ya ra IH]; intros [|yb rb] c xa xb H; simpl; auto.
  apply IH. pose proof (compare_pair_bound c xa ya xb yb). lia.
Qed.

Lemma all_pairs_bound : forall ra rb c,
  (ident_total c <= ref_total c)%N ->
  (ident_total (all_pairs c ra rb) <= ref_total (all_pairs c ra rb))%N.
Proof.
  induction ra as [|xa ra IH]; intros [|xb rb] c H; simpl; auto.
  apply IH. apply pairs_from_bound. exact H.
Qed.

(* C17, range at the level of the counters: never more identical relations than reference relations *)
Theorem counters_range r t : (ident_total (compare_counters r t) <= ref_total (compare_counters r t))%N.
Proof. unfold compare_counters. apply all_pairs_bound. reflexivity. Qed.

(* ---- all-gap columns are invisible ---------------------------------------------------------------- *)
Lemma codes1_dashes : forall k x y p, codes1 (repeat dash k ++ x) (repeat dash k ++ y) p = codes1 x y p.
Proof. induction k as [|k IH]; intros x y p; [reflexivity|]. cbn [repeat app codes1]. rewrite isalpha_dash. apply IH. Qed.

Lemma codes1_expand : forall x y ng p, length x = length y -> length ng = S (length x) ->
  codes1 (expand ng x) (expand ng y) p = codes1 x y p.
Proof.
  induction x as [|a x IH]; intros [|b y] ng p Hl Hn; simpl in Hl; try lia.
  - destruct ng as [|n ng]; simpl in *; try lia.
    rewrite <- (app_nil_r (repeat dash n)). rewrite codes1_dashes. reflexivity.
  - destruct ng as [|n ng]; simpl in Hn; try lia.
    rewrite !expand_cons_cons, codes1_dashes. cbn [codes1].
    rewrite !(IH y ng) by lia. reflexivity.
Qed.

Lemma pair_totals_dashes : forall k x y, pair_totals (repeat dash k ++ x) (repeat dash k ++ y) = pair_totals x y.
Proof. induction k as [|k IH]; intros x y; [reflexivity|]. cbn [repeat app pair_totals]. rewrite isalpha_dash, IH. cbn [andb orb]. destruct (pair_totals x y); reflexivity. Qed.

Lemma pair_totals_expand : forall x y ng, length x = length y -> length ng = S (length x) ->
  pair_totals (expand ng x) (expand ng y) = pair_totals x y.
Proof.
  induction x as [|a x IH]; intros [|b y] ng Hl Hn; simpl in Hl; try lia.
  - destruct ng as [|n ng]; simpl in *; try lia.
    rewrite <- (app_nil_r (repeat dash n)). rewrite pair_totals_dashes. reflexivity.
  - destruct ng as [|n ng]; simpl in Hn; try lia.
    rewrite !expand_cons_cons, pair_totals_dashes. cbn [pair_totals].
    rewrite (IH y ng) by lia. reflexivity.
Qed.

(* one pair, test = reference up to inserted all-gap columns: every relation is reproduced *)
Lemma compare_pair_same c x y ng1 ng2 :
  length x = length y -> length ng1 = S (length x) -> length ng2 = S (length x) ->
  let c' := compare_pair c (expand ng1 x) (expand ng1 y) (expand ng2 x) (expand ng2 y) in
  (ident_total c' - ident_total c = ref_total c' - ref_total c)%N /\
  (ident_total c <= ident_total c')%N /\ (ref_total c <= ref_total c')%N.
Proof.
  intros Hl H1 H2. unfold compare_pair, ident_total, ref_total.
  rewrite !pair_totals_expand by auto.
  rewrite !codes1_expand by (auto; lia).
  pose proof (pair_totals_codes x y 0 0) as HT.
  destruct (pair_totals x y) as [ra rg].
  pose proof (agree_refl (codes1 x y 0)) as A1. pose proof (agree_refl (codes1 y x 0)) as A2.
  destruct (agree (codes1 x y 0) (codes1 x y 0)) as [i1 g1].
  destruct (agree (codes1 y x 0) (codes1 y x 0)) as [i2 g2].
  simpl in *. lia.
Qed.

Lemma pairs_from_same : forall rows c x ng1 ng2 w,
  length x = w -> Forall (fun r => length r = w) rows -> length ng1 = S w -> length ng2 = S w ->
  (ident_total c = ref_total c)%N ->
  let c' := pairs_from c (expand ng1 x) (expand ng2 x) (map (expand ng1) rows) (map (expand ng2) rows) in
  (ident_total c' = ref_total c')%N.
Proof.
  induction rows as [|y rows IH]; intros c x ng1 ng2 w Hx Hr H1 H2 Hc; simpl; auto.
  inversion Hr; subst. apply (IH _ _ _ _ (length x)); auto.
  pose proof (compare_pair_same c x y ng1 ng2 ltac:(congruence) H1 H2) as (E & L1 & L2).
  cbv zeta in E, L1, L2. lia.
Qed.

Lemma all_pairs_same : forall rows c ng1 ng2 w,
  Forall (fun r => length r = w) rows -> length ng1 = S w -> length ng2 = S w ->
  (ident_total c = ref_total c)%N ->
  let c' := all_pairs c (map (expand ng1) rows) (map (expand ng2) rows) in
  (ident_total c' = ref_total c')%N.
Proof.
  induction rows as [|x rows IH]; intros c ng1 ng2 w Hr H1 H2 Hc; simpl; auto.
  inversion Hr; subst. apply (IH _ _ _ (length x)); auto.
  apply (pairs_from_same rows c x ng1 ng2 (length x)); auto.
Qed.
