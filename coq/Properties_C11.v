(* C11 - The bit-parallel distance kernel equals the edit distance it stands for.
   Proved, for EVERY text and EVERY pattern (no bound on lengths, any symbols), over the bit-level model of
   bpm.c (BpmBits.v: a uint64_t is 64 bits, '+' is binary addition with carry propagation modulo 2^64,
   '<< 1' drops the top bit):
     C11_block : the blocked routine bpm_block - the one kalign uses - returns the minimum over the columns of
                 Sellers' semi-global recurrence D[i][j] = min(D[i-1][j-1] + [p_i <> t_j], D[i-1][j] + 1,
                 D[i][j-1] + 1), D[0][j] = 0, D[i][0] = i for the first 1024 pattern symbols ([sed]);
     C11_bpm64 : the one-word routine bpm returns the same for patterns of 1..63 symbols, hence the two agree.
   The proof is the Myers/Hyyro argument made explicit: the cell function on delta encodings; a row-serial
   column step equal to the recurrence; the word-level formulas (both bpm's and bpm_advance_block's) equal to
   the row-serial step because the adder's carry chain IS the chain of "horizontal delta = -1"; blocks chained
   by the border delta; the active-block bookkeeping shown inert (score <= m + 63 < maxd + 64); and the
   wildcard padding of the last block together with the text padding shown neutral (a two-sided bound on the
   wildcard rows).
   C11_is_min_substring_edit_distance closes the specification side (Sellers 1980): the recurrence [sed] is
   attained by the Levenshtein distance between the pattern and some substring of the text, and no substring
   does better; edit distance is the least cost of an edit script ([script]) = the executable [lev].
   C11_bpm256 : the AVX2 routine bpm_256 (four 64-bit lanes) returns the same for the first 255 pattern symbols:
                the bit-level step proved at any word width, and the lane operations of the model - and/or/xor/not,
                add256 with Yee's carry trick (generate/propagate masks resolved by one integer addition), the
                cross-lane shift, testz against the single-bit MASK, the match masks - proved to BE the 256-bit word
                operations (Bpm256Proofs.v). *)
From KV Require Import Base Bpm BpmProofs BpmBits BpmBitsProofs SellersProofs Bpm256Proofs.
Local Open Scope Z_scope.

Theorem C11_block : forall t p, (1 <= length p)%nat ->
  bpm_block_bits t p = sed t (firstn 1024 p).
Proof. exact bpm_block_bits_is_sed. Qed.
Print Assumptions C11_block.

(* what the routine returns, said without any recurrence: the least edit distance between the (first 1024 symbols of
   the) pattern and a substring of the text - attained, and not beaten *)
Theorem C11_is_min_substring_edit_distance : forall t p, (1 <= length p)%nat ->
  (exists pre u post, t = (pre ++ u ++ post)%list /\ lev u (firstn 1024 p) = bpm_block_bits t p) /\
  (forall pre u post, t = (pre ++ u ++ post)%list -> bpm_block_bits t p <= lev u (firstn 1024 p)).
Proof. intros t p H. rewrite (bpm_block_bits_is_sed t p H). exact (sed_is_min_substring_lev t (firstn 1024 p)). Qed.
Print Assumptions C11_is_min_substring_edit_distance.

Theorem C11_lev_is_least_script_cost : forall a b, script (lev a b) a b /\ forall c, script c a b -> lev a b <= c.
Proof. intros a b. split; [apply lev_script|intros c; apply lev_min]. Qed.
Print Assumptions C11_lev_is_least_script_cost.

Theorem C11_bpm64 : forall t p, (1 <= length p <= 63)%nat ->
  bpm64_bits t p = sed t p.
Proof. intros t p H. apply bpm64_bits_is_sed. exact H. Qed.
Print Assumptions C11_bpm64.

Corollary C11_bpm64_agrees_with_block : forall t p, (1 <= length p <= 63)%nat ->
  bpm64_bits t p = bpm_block_bits t p.
Proof.
  intros t p H. rewrite C11_bpm64 by exact H. rewrite C11_block by lia.
  rewrite firstn_all2 by lia. reflexivity.
Qed.
Print Assumptions C11_bpm64_agrees_with_block.

(* the padding argument on its own: W wildcard rows below the pattern and W extra text columns change nothing *)
Theorem C11_padding_is_neutral : forall q, (1 <= length q)%nat -> forall Wd t,
  sedg (rowsP q Wd) (length q + Wd) (Z.of_nat (length q)) (t ++ repeat 0 Wd) = sed t q.
Proof. exact padding_neutral. Qed.
Print Assumptions C11_padding_is_neutral.

(* the three layers of the argument, each for all inputs *)
Theorem C11_cell_function : forall (e vp vn hp hn : bool) (a : Z), vp && vn = false -> hp && hn = false ->
  let up := a + dv vp vn in
  let l := a + dv hp hn in
  let d := Z.min (Z.min (a + (if e then 0 else 1)) (up + 1)) (l + 1) in
  let r := cellf e vp vn hp hn in
  fst (fst r) && snd (fst r) = false /\ fst (snd r) && snd (snd r) = false /\
  dv (fst (fst r)) (snd (fst r)) = d - l /\ dv (fst (snd r)) (snd (snd r)) = d - up.
Proof. exact cell_spec. Qed.
Print Assumptions C11_cell_function.

Theorem C11_word_formulas_are_the_serial_step : forall Eq VP VN hpin hnin,
  length VP = length Eq -> length VN = length Eq -> valid VP VN ->
  word_step Eq VP VN hnin hpin hnin = serial Eq VP VN hpin hnin.
Proof. exact word_step_serial. Qed.
Print Assumptions C11_word_formulas_are_the_serial_step.

(* the 256-bit routine, for all texts and all patterns (the first 255 symbols count, as in the C code) *)
Theorem C11_bpm256 : forall t p, (1 <= length p)%nat -> bpm256 t p = sed t (firstn 255 p).
Proof. exact bpm256_is_sed. Qed.
Print Assumptions C11_bpm256.

Corollary C11_all_three_routines_agree : forall t p, (1 <= length p <= 63)%nat ->
  bpm64_bits t p = bpm_block_bits t p /\ bpm256 t p = bpm_block_bits t p.
Proof.
  intros t p H. split; [apply C11_bpm64_agrees_with_block; exact H|].
  rewrite C11_bpm256 by lia. rewrite C11_block by lia. rewrite !firstn_all2 by lia. reflexivity.
Qed.
Print Assumptions C11_all_three_routines_agree.

(* the carry trick of add256 on its own: the four lanes are the 256-bit sum, carries rippling through *)
Theorem C11_add256_is_256_bit_addition : forall a0 a1 a2 a3 b0 b1 b2 b3,
  (a0 < w64 -> a1 < w64 -> a2 < w64 -> a3 < w64 -> b0 < w64 -> b1 < w64 -> b2 < w64 -> b3 < w64 ->
   add256 [a0; a1; a2; a3] [b0; b1; b2; b3] = ripple_lanes [a0; a1; a2; a3] [b0; b1; b2; b3] false)%N.
Proof. exact add256_ripple. Qed.
Print Assumptions C11_add256_is_256_bit_addition.

(* the specification at its two ends *)
Theorem C11_spec_upper_bound : forall t p, sed t p <= Z.of_nat (length p).
Proof. exact sed_le_pattern_length. Qed.
Print Assumptions C11_spec_upper_bound.
Theorem C11_spec_empty_text : forall p, sed [] p = Z.of_nat (length p).
Proof. exact sed_empty_text. Qed.
Print Assumptions C11_spec_empty_text.

(* instances of the open statements, by evaluation (tests of the statements, not proofs of them) *)
Example C11_instances :
  let t := [0;1;2;3;4;5;6;0;1;2;3;4;5;6;7;8;9;10;11;12;0;0;1;1;2] in
  let p := [2;3;9;5;6;0;1] in
  bpm_block_bits t p = sed t p /\ bpm_block t p = sed t p /\ bpm64 t p = sed t p /\ bpm256 t p = sed t p /\
  let p2 := (p ++ p ++ p ++ p ++ p ++ p ++ p ++ p ++ p ++ p)%list in
  let t2 := (t ++ t ++ t ++ t)%list in
  bpm_block_bits t2 p2 = sed t2 p2 /\ bpm256 t2 p2 = sed t2 p2.
Proof. vm_compute. repeat split; reflexivity. Qed.
