(* Driver for the extracted model: reads one case per line on stdin ("<command> <args...>"),
   prints one result line per case.  Only converts between text and the extracted datatypes. *)
open Kvmodel
type string = Stdlib.String.t
module String = Stdlib.String
module List = Stdlib.List
module Printf = Stdlib.Printf
module Hashtbl = Stdlib.Hashtbl
let length = Stdlib.List.length

let rec pos_of_int n =
  if n = 1 then XH else if n land 1 = 0 then XO (pos_of_int (n lsr 1)) else XI (pos_of_int (n lsr 1))
let z_of_int n = if n = 0 then Z0 else if n > 0 then Zpos (pos_of_int n) else Zneg (pos_of_int (-n))
let n_of_int n = if n = 0 then N0 else Npos (pos_of_int n)
let rec int_of_pos = function XH -> 1 | XO p -> 2 * int_of_pos p | XI p -> 2 * int_of_pos p + 1
let int_of_z = function Z0 -> 0 | Zpos p -> int_of_pos p | Zneg p -> - (int_of_pos p)
let int_of_n = function N0 -> 0 | Npos p -> int_of_pos p
let rec nat_of_int n = if n <= 0 then O else S (nat_of_int (n - 1))
let rec int_of_nat = function O -> 0 | S n -> 1 + int_of_nat n

(* unsigned 64-bit (and wider) values travel as hex strings *)
let n_of_hex (s : string) : n =
  let bits = ref [] in
  String.iter (fun c ->
    let v = int_of_string ("0x" ^ String.make 1 c) in
    bits := (v land 1 <> 0) :: (v land 2 <> 0) :: (v land 4 <> 0) :: (v land 8 <> 0) :: !bits) s;
  (* !bits is least significant first *)
  let rec build = function
    | [] -> None
    | b :: rest ->
      (match build rest with
       | None -> if b then Some XH else None
       | Some p -> Some (if b then XI p else XO p)) in
  match build !bits with None -> N0 | Some p -> Npos p
let hex_of_n (x : n) : string =
  match x with
  | N0 -> "0"
  | Npos p ->
    let rec bits p = match p with XH -> [true] | XO q -> false :: bits q | XI q -> true :: bits q in
    let bl = bits p in
    let rec nibbles l = match l with
      | [] -> []
      | _ ->
        let take k l = let rec go k l acc = if k = 0 then (List.rev acc, l) else
                         (match l with [] -> go (k-1) [] (false :: acc) | x :: r -> go (k-1) r (x :: acc)) in go k l [] in
        let (nb, rest) = take 4 l in
        let v = List.fold_right (fun b acc -> acc * 2 + (if b then 1 else 0)) nb 0 in
        v :: nibbles rest in
    let ns = List.rev (nibbles bl) in
    let s = String.concat "" (List.map (Printf.sprintf "%x") ns) in
    (* strip leading zeros *)
    let i = ref 0 in
    while !i < String.length s - 1 && s.[!i] = '0' do incr i done;
    String.sub s !i (String.length s - !i)

let bytes_of_hexstr (s : string) : z list =
  let n = String.length s / 2 in
  List.init n (fun i ->
    let v = int_of_string ("0x" ^ String.sub s (2 * i) 2) in
    z_of_int (if v >= 128 then v - 256 else v))
let hexstr_of_bytes (l : z list) : string =
  String.concat "" (List.map (fun z -> Printf.sprintf "%02x" ((int_of_z z) land 255)) l)

let split_ws s = List.filter (fun x -> x <> "") (String.split_on_char ' ' s)
let ints_of_csv s = if s = "-" || s = "" then [] else List.map int_of_string (String.split_on_char ',' s)
let csv_of_ints l = if l = [] then "-" else String.concat "," (List.map string_of_int l)

let handlers : (string, string list -> string) Hashtbl.t = Hashtbl.create 64
let register name f = Hashtbl.replace handlers name f

(* ---- C09: params ------------------------------------------------------------------- *)
let () = register "params" (fun args ->
  match args with
  | [bt; ty; g; e; t] ->
    let r = init (z_of_int (int_of_string bt)) (z_of_int (int_of_string ty))
        (n_of_int (int_of_string g)) (n_of_int (int_of_string e)) (n_of_int (int_of_string t)) in
    let d = init (z_of_int (int_of_string bt)) (z_of_int (int_of_string ty))
        (n_of_int 3212836864) (n_of_int 3212836864) (n_of_int 3212836864) in
    (match r, d with
     | Some p, Some dp ->
       Printf.sprintf "OK %d %d %d %s" (int_of_n p.p_gpo) (int_of_n p.p_gpe) (int_of_n p.p_tgpe)
         (if p.p_subm = dp.p_subm then "subm=default" else "subm=DIFFERENT")
     | Some _, None -> "OK-but-default-fails"
     | None, _ -> "FAIL")
  | _ -> "BADARGS")

let () = register "params_full" (fun args ->
  match args with
  | [bt; ty] ->
    let ng = n_of_int 3212836864 in
    (match init (z_of_int (int_of_string bt)) (z_of_int (int_of_string ty)) ng ng ng with
     | Some p ->
       Printf.sprintf "OK %d %d %d %s" (int_of_n p.p_gpo) (int_of_n p.p_gpe) (int_of_n p.p_tgpe)
         (String.concat ";" (List.map (fun row -> String.concat "," (List.map (fun x -> string_of_int (int_of_n x)) row)) p.p_subm))
     | None -> "FAIL")
  | _ -> "BADARGS")

let () = register "doc_params" (fun args ->
  match args with
  | [bt; ty] ->
    (match fits (z_of_int (int_of_string bt)) (z_of_int (int_of_string ty)) with
     | Some s ->
       let p = doc_params s in
       Printf.sprintf "OK %d %d %d %s" (int_of_n p.p_gpo) (int_of_n p.p_gpe) (int_of_n p.p_tgpe)
         (String.concat ";" (List.map (fun row -> String.concat "," (List.map (fun x -> string_of_int (int_of_n x)) row)) p.p_subm))
     | None -> "FAIL")
  | _ -> "BADARGS")

let () = register "typeword" (fun args ->
  let w = match args with
    | ["NULL"] -> None
    | [h] -> Some (bytes_of_hexstr h)
    | [] -> Some []
    | _ -> Some [] in
  match set_aln_type w with
  | Some t -> Printf.sprintf "OK %d" (int_of_z t)
  | None -> "FAIL")

let () = register "ctype" (fun args ->
  match args with
  | [c] ->
    let z = z_of_int (int_of_string c) in
    let b f = if f z then 1 else 0 in
    Printf.sprintf "%d %d %d %d %d" (b isalpha) (b ispunct) (b isspace) (b iscntrl) (int_of_z (toupper z))
  | _ -> "BADARGS")

let main () =
  try
    while true do
      let line = input_line stdin in
      match split_ws line with
      | [] -> print_endline ""
      | cmd :: args ->
        (match Hashtbl.find_opt handlers cmd with
         | Some f -> print_endline (try f args with e -> "MODEL-EXCEPTION " ^ Printexc.to_string e)
         | None -> print_endline ("UNKNOWN-COMMAND " ^ cmd))
    done
  with End_of_file -> ()

let () = if not !Sys.interactive then main ()
