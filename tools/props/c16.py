"""C16 - a library call's result does not depend on the calls made before it."""
import json, os, shutil, subprocess, tempfile
from concurrent.futures import ThreadPoolExecutor
import gen
from props import fmtcommon as fc
from props.c04 import render_clu, render_msf, gapify

def handles(op):
    k = op[0]
    if k == 'K': return []
    if k == 'C':
        a, b = op[1:].split(':')[:2]; return [int(a), int(b)]
    return [int(op[1:].split(':')[0])]

def slice_of(pre, D):
    """History.slice of the write-free history (C16_history_without_writes: kalign_write_msa is read-only, so the fresh process
    does not repeat the writes): the calls of [pre], writes dropped, that can reach the handles D (backward pass)"""
    D = set(D); keep = []
    for op in reversed([o for o in pre if o[0] not in 'WO']):
        hs = handles(op)
        if D & set(hs):
            keep.append(op); D |= set(hs)
            if op[0] == 'F':
                D -= set(hs)      # C16_free_forgets: what the handle held before its free cannot matter afterwards
    return keep[::-1]

def run(ck):
    ck.build(('omp', 'plain'))
    ck.translate()
    ok = ck.prove()
    kvh = ck.harness('omp', 'kvh')
    kvhc = ck.harness('plain', 'kvhc')
    rng = ck.rng
    quick = ck.tier == 'quick'
    ck.rule = ('random histories of 3..%d API calls over 4 handles (kalign_read_input of 1..3 inputs incl. malformed/missing ones and alignments in 3 formats, kalign_run with varying type / penalties / '
               'threads 1..16, kalign_write_msa in 3 formats, kalign_msa_compare, kalign_free_msa, kalign()), ALL histories of a run executed back to back in ONE process; every call is then '
               'repeated in a fresh process that makes only the calls of its backward slice (History.slice) and the two result tokens (status + digest of records / rows / file bytes / score bits) '
               'must be equal. Ledger: every history is run twice in a process linked without OpenMP whose malloc/calloc/realloc/free/memalign are interposed; after freeing every handle the number '
               'of live blocks must be back where it was, and the second run must repeat the first. Non-trivial = the call has a predecessor outside its slice and succeeds; distinct by (slice, call)'
               % (12 if quick else 30))
    tmp = tempfile.mkdtemp(prefix='kv_c16_')
    wit = []
    try:
        # ---- pool of inputs -----------------------------------------------------------------------------
        pool = {'dna': [], 'protein': [], 'aln': [], 'bad': []}
        for i in range(10 if quick else 30):
            kind = 'dna' if i % 2 == 0 else 'protein'
            fam, seqs = gen.family(rng, kind, small=True)
            seqs = [s for s in seqs if s]
            if len(seqs) < 2: seqs = seqs + ['ACGTAC' if kind == 'dna' else 'MKWLEF'] * 2
            names = ['s%d_%d' % (i, j) for j in range(len(seqs))]
            p = os.path.join(tmp, 'in%d.fa' % i); open(p, 'w').write(gen.fasta(names, seqs) + ('>empty%d\n\n' % i if i % 5 == 3 else '')); pool[kind].append(p)
            rows = gapify(rng, seqs, 0.3)
            fmt = rng.choice(['afa', 'clu', 'msf'])
            p2 = os.path.join(tmp, 'aln%d.%s' % (i, fmt))
            open(p2, 'w').write(gen.fasta(names, rows) if fmt == 'afa' else render_clu(names, rows, 60, 0) if fmt == 'clu' else render_msf(names, rows, 50, kind == 'protein'))
            pool['aln'].append((p2, kind))
            rows2 = gapify(rng, seqs, 0.3)
            p3 = os.path.join(tmp, 'alnB%d.afa' % i); open(p3, 'w').write(gen.fasta(names, rows2)); pool['aln'].append((p3, kind))
        bad1 = os.path.join(tmp, 'bad1'); open(bad1, 'wb').write(b'CLUSTAL W\n\nx\n'); bad2 = os.path.join(tmp, 'bad2'); open(bad2, 'wb').write(b'>only\nACGT\n')
        pool['bad'] = [bad1, bad2, os.path.join(tmp, 'missing')]
        # big inputs (k-means path, parallel regions) a few times in the thorough tier
        if True:
            root = gen.rand_seq(rng, gen.DNA, 40)
            p = os.path.join(tmp, 'big.fa'); open(p, 'w').write(gen.fasta(['b%d' % j for j in range(120)], [gen.mutate(rng, root, gen.DNA, 10, 6) for _ in range(120)])); pool['dna'].append(p)
        pens = [gen.NG, gen.NG, gen.NG, gen.fbits(0.0), gen.fbits(2.0), gen.fbits(8.0), gen.fbits(30.0)]
        # ---- histories ---------------------------------------------------------------------------------------
        hists = []
        nh = 40 if quick else 400
        wcount = [0]
        for k in range(nh):
            n = rng.range(3, 12 if quick else 30)
            ops = []; state = {}       # handle -> 'dna' | 'protein' | None  (what we believe it holds)
            for j in range(n):
                r = rng.below(100); h = rng.below(4)
                if r < 30 or not state:
                    kind = rng.choice(['dna', 'protein'])
                    if state.get(h): kind = state[h] if rng.chance(4, 5) else kind
                    src = rng.below(10)
                    if src < 6: files = [rng.choice(pool[kind])]
                    elif src < 8: files = [rng.choice([p for p, kd in pool['aln'] if kd == kind])]
                    elif src < 9: files = [rng.choice(pool[kind]), rng.choice(pool[kind])]
                    else: files = [rng.choice(pool[kind]), rng.choice(pool['bad'])]
                    ops.append('R%d:%s' % (h, ','.join(files))); state[h] = kind
                elif r < 55:
                    h = rng.choice(list(state)) if state else h
                    kind = state.get(h) or 'dna'
                    ty = rng.choice([5, 5] + ([0, 1, 2] if kind == 'dna' else [3, 4]) + [rng.choice([0, 3])])
                    ops.append('A%d:%d:%d:%d:%d:%d' % (h, rng.choice([1, 2, 3, 8, 16]), ty, rng.choice(pens), rng.choice(pens), rng.choice(pens)))
                elif r < 70:
                    h = rng.choice(list(state)) if state else h
                    wcount[0] += 1
                    ops.append('W%d:%s:%s' % (h, rng.choice(['fasta', 'msf', 'clu']), os.path.join(tmp, 'w%d' % wcount[0])))
                elif r < 74:
                    h = rng.choice(list(state)) if state else h
                    wcount[0] += 1           # the same call writing to stdout (outfile == NULL)
                    ops.append('O%d:%s:%s' % (h, rng.choice(['fasta', 'msf', 'clu']), os.path.join(tmp, 'o%d' % wcount[0])))
                elif r < 80:
                    a, b = rng.below(4), rng.below(4)
                    if a != b: ops.append('C%d:%d' % (a, b))
                elif r < 88:
                    ops.append('F%d' % h); state.pop(h, None)
                else:
                    kind = rng.choice(['dna', 'protein'])
                    fam, seqs = gen.family(rng, kind, small=True)
                    ty = rng.choice([5, 5] + ([0, 1, 2] if kind == 'dna' else [3, 4]))
                    ops.append('K:%d:%d:%d:%d:%d:%s' % (rng.choice([0, 1, 4, 16]), ty, rng.choice(pens), rng.choice(pens), rng.choice(pens), ','.join(gen.hexs(s) for s in seqs)))
            # aligned pairs for compare: make sure some histories compare two runs of the same sequences
            if k % 4 == 0:
                f = rng.choice(pool['dna'])
                ops += ['R0:' + f, 'R1:' + f, 'A0:4:5:%d:%d:%d' % (gen.NG, gen.NG, gen.NG), 'A1:1:0:%d:%d:%d' % (gen.fbits(2.0), gen.NG, gen.NG), 'C0:1']
                ops = ['F0', 'F1'] + ops[-5:] if rng.chance(1, 2) else ops[:-5] + ['F0', 'F1'] + ops[-5:]
            hists.append(ops)
        # an input in which the header-only records outnumber the others (the bookkeeping arrays are sized by the record count)
        me = os.path.join(tmp, 'mostly_empty.fa')
        open(me, 'w').write('>e1\n\n>a\nACGTACGTAAGT\n>e2\n\n>e3\n\n>b\nACGTTCGTAAG\n>e4\n\n')
        hists.append(['R0:' + me, 'A0:1:5:%d:%d:%d' % (gen.NG, gen.NG, gen.NG), 'W0:fasta:' + os.path.join(tmp, 'wme'), 'F0'])
        hists.append(['R1:' + me, 'F1', 'R1:' + me + ',' + pool['dna'][0], 'A1:4:5:%d:%d:%d' % (gen.NG, gen.NG, gen.NG), 'F1'])
        # >= 100 sequences (bisecting k-means, its own allocations) and two writes to stdout in a row
        big = os.path.join(tmp, 'big.fa')
        hists.append(['R0:' + big, 'A0:4:5:%d:%d:%d' % (gen.NG, gen.NG, gen.NG), 'O0:clu:' + os.path.join(tmp, 'obig1'), 'O0:fasta:' + os.path.join(tmp, 'obig2'), 'F0'])
        hists.append(['R1:' + pool['protein'][0], 'A1:1:5:%d:%d:%d' % (gen.NG, gen.NG, gen.NG), 'O1:msf:' + os.path.join(tmp, 'op1'), 'R2:' + big, 'A2:1:5:%d:%d:%d' % (gen.NG, gen.NG, gen.NG),
                      'O2:fasta:' + os.path.join(tmp, 'op2'), 'O1:fasta:' + os.path.join(tmp, 'op3'), 'F1', 'F2'])
        # an alignment read from a file, WRITTEN (or compared) before it is realigned: the write / compare must not leave the object in
        # a state the later run trips over (explicit orders; the random histories reach them rarely)
        for ai, (ap, akind) in enumerate(pool['aln'][:6 if quick else 20]):
            f1 = ['fasta', 'msf', 'clu'][ai % 3]
            hists.append(['R0:' + ap, ('W0' if ai % 2 == 0 else 'O0') + ':%s:%s' % (f1, os.path.join(tmp, 'xw%d' % ai)), 'A0:%d:5:%d:%d:%d' % (rng.choice([1, 4]), gen.NG, gen.NG, gen.NG),
                          'W0:fasta:' + os.path.join(tmp, 'xv%d' % ai), 'F0'])
            if ai % 3 == 0:
                hists.append(['R0:' + ap, 'R1:' + ap, 'C0:1', 'A0:1:5:%d:%d:%d' % (gen.NG, gen.NG, gen.NG), 'W0:clu:' + os.path.join(tmp, 'xc%d' % ai), 'C0:1', 'F0', 'F1'])
            ck.count('explicit history: aligned input written or compared before the run')
        # records that share name AND length (nothing distinguishes them for the canonical sort): their processing order must not
        # depend on what the process did before (heap layout, earlier objects)
        for di in range(6 if quick else 30):
            kind = 'protein' if di % 2 == 0 else 'dna'
            alpha = gen.PROT if kind == 'protein' else gen.DNA
            base = gen.rand_seq(rng, alpha, rng.range(18, 40))
            def variant(x):
                y = gen.mutate(rng, x, alpha, 12, 0)
                i, j = sorted([rng.below(len(y) - 2), rng.below(len(y) - 2)])
                if j - i < 3: j = min(len(y) - 1, i + 4)
                return y[:i] + y[i + 1:j] + rng.choice(alpha) + y[j:]         # one residue deleted, one inserted further on: same length
            seqs = [variant(base), variant(base), gen.mutate(rng, base, alpha, 10, 6), gen.mutate(rng, base, alpha, 10, 6), variant(base)]
            L = len(seqs[0]); seqs = [(x + base)[:L] if i in (0, 1, 4) else x for i, x in enumerate(seqs)]
            names = ['SAME_NAME', 'SAME_NAME', 'ref%d' % di, 'hom%d' % di, 'SAME_NAME']
            dp = os.path.join(tmp, 'dup%d.fa' % di); open(dp, 'w').write(gen.fasta(names, seqs))
            other = pool['protein' if di % 2 else 'dna'][di % 3]
            pre = [['R1:' + other, 'A1:1:5:%d:%d:%d' % (gen.NG, gen.NG, gen.NG), 'F1'],
                   ['R1:' + big, 'A1:4:5:%d:%d:%d' % (gen.NG, gen.NG, gen.NG), 'R2:' + other, 'F1', 'F2'],
                   ['K:1:5:%d:%d:%d:%s' % (gen.NG, gen.NG, gen.NG, ','.join(gen.hexs(x) for x in seqs[2:])), 'R3:' + other, 'R1:' + pool['bad'][0], 'F3']][di % 3]
            hists.append(pre + ['R0:' + dp, 'A0:1:5:%d:%d:%d' % (gen.NG, gen.NG, gen.NG), 'W0:fasta:' + os.path.join(tmp, 'dw%d' % di), 'F0'])
            ck.count('explicit history: records sharing name and length, after other objects were created and freed')
        # objects created where freed ones lay (the allocator hands the same chunks out again): a compare, both objects freed in
        # either order, then a NEW reference whose rows are not in name order compared with a new test alignment; and block-format
        # files with names of 30..75 bytes read after FASTA objects were freed (whatever is recycled must be re-initialised)
        for ri in range(4 if quick else 16):
            kind = 'dna' if ri % 2 == 0 else 'protein'
            fam, seqs = gen.family(rng, kind, small=True)
            seqs = [x for x in seqs if x]
            if len(seqs) < 3: seqs = seqs + ['ACGTACGTTA' if kind == 'dna' else 'MKWLEFAHRT'] * 3
            longn = ['%s_%d' % (gen.rand_seq(rng, 'abcdefghijklmnopqrstuvwxyz', rng.choice([30, 45, 75])), j) for j in range(len(seqs))]
            ra, rb = gapify(rng, seqs, 0.3), gapify(rng, seqs, 0.3)
            order = list(range(len(seqs))); rng.shuffle(order)
            if order == sorted(order, key=lambda j: longn[j]): order = order[::-1]
            pr = os.path.join(tmp, 'reuse_ref%d.%s' % (ri, 'aln' if ri % 2 else 'msf')); pt = os.path.join(tmp, 'reuse_test%d.afa' % ri)
            open(pr, 'w').write(render_clu([longn[j] for j in order], [ra[j] for j in order], 60, 0) if ri % 2 else render_msf([longn[j] for j in order], [ra[j] for j in order], 50, kind == 'protein'))
            open(pt, 'w').write(gen.fasta(longn, rb))
            a0, b0 = pool['aln'][(2 * ri) % len(pool['aln'])][0], pool['aln'][(2 * ri + 1) % len(pool['aln'])][0]
            frees = ['F1', 'F0'] if ri % 4 < 2 else ['F0', 'F1']
            hists.append(['R0:' + a0, 'R1:' + b0, 'C0:1'] + frees + ['R0:' + pr, 'R1:' + pt, 'C0:1', 'F0', 'F1'])
            # the same with small aligned-FASTA objects of equal shape (the new reference then lands exactly where the old one lay)
            nm = ['delta', 'bravo', 'alpha', 'charlie', 'echo'][:max(3, min(5, len(seqs)))]
            sq = [gen.rand_seq(rng, gen.PROT, 20) for _ in nm]
            files = []
            for tag in ('r1', 't1', 'r2', 't2'):
                rows = gapify(rng, sq, 0.3)
                idx = list(range(len(nm)))
                if tag == 'r2': idx = idx[::-1] if sorted(nm) != nm[::-1] else idx
                elif tag != 'r1': idx = sorted(idx, key=lambda j: nm[j])
                fp = os.path.join(tmp, 'cc%d_%s.afa' % (ri, tag)); open(fp, 'w').write(gen.fasta([nm[j] for j in idx], [rows[j] for j in idx])); files.append(fp)
            hists.append(['R0:' + files[0], 'R1:' + files[1], 'C0:1'] + frees + ['R0:' + files[2], 'R1:' + files[3], 'C0:1', 'F0', 'F1'])
            hists.append(['R2:' + pool[kind][0], 'F2', 'R3:' + pool[kind][1], 'F3', 'R0:' + pr, 'A0:1:5:%d:%d:%d' % (gen.NG, gen.NG, gen.NG), 'W0:clu:' + os.path.join(tmp, 'reuse_w%d' % ri), 'F0'])
            ck.count('explicit history: new objects where freed ones lay (compare after compare; long names after FASTA objects)')
        # ---- all histories in ONE process -----------------------------------------------------------------------
        lines = ['hist ' + ' '.join(ops) for ops in hists]
        if os.environ.get('KV_KEEP_TMP'):
            open(os.path.join(tmp, 'lines.txt'), 'w').write('\n'.join(lines) + '\n')
        res = ck.run_lines(kvh, lines, timeout=3000)
        ck.evaluations += len(lines)
        # ---- every call again in a fresh process with its slice -----------------------------------------------------
        jobs = []
        for hi, (ops, r) in enumerate(zip(hists, res)):
            toks = r.split()
            if r.startswith('CRASH') or len(toks) < len(ops):
                wit.append({'kind': 'history-crashed', 'history': ops, 'implementation': r[:500]}); continue
            for j, op in enumerate(ops):
                sl = slice_of(ops[:j], handles(op))
                jobs.append((hi, j, sl + [op], toks[j], len(sl) < j))
        def fresh(job):
            hi, j, sl, tok, nontriv = job
            # output paths of W calls are rewritten so that the fresh process does not clobber the history's files
            # (same base name: the MSF header quotes it)
            fd = os.path.join(tmp, 'fresh%d_%d' % (hi, j))
            if any(op[0] in 'WO' for op in sl): os.makedirs(fd, exist_ok=True)
            sl2 = [op if op[0] not in 'WO' else op.rsplit(':', 1)[0] + ':' + os.path.join(fd, os.path.basename(op.rsplit(':', 1)[1])) for op in sl]
            p = subprocess.run([kvh], input=('hist ' + ' '.join(sl2) + '\n').encode(), stdout=subprocess.PIPE, stderr=subprocess.DEVNULL, timeout=600)
            out = p.stdout.decode('latin-1').split()
            return out[len(sl2) - 1] if len(out) >= len(sl2) else 'CRASH rc=%d' % p.returncode
        with ThreadPoolExecutor(max_workers=14) as ex:
            fres = list(ex.map(fresh, jobs))
        ck.evaluations += len(jobs)
        st = ck.corr.setdefault('History.step/slice vs the library: call after a history == call after its slice in a fresh process', {'cases': 0, 'disagreements': 0})
        st['cases'] += len(jobs)
        for (hi, j, sl, tok, nontriv), ft in zip(jobs, fres):
            ck.count('call:' + sl[-1][0] + ':' + tok.split(':')[0].split('=')[1] if '=' in tok else 'call:?')
            if ft != tok:
                st['disagreements'] += 1
                wit.append({'kind': 'result-depends-on-earlier-calls', 'history': hists[hi][:j + 1], 'call_index': j, 'result_in_history': tok,
                            'slice': sl, 'result_in_fresh_process': ft,
                            'inputs': {p: open(p, 'rb').read().decode('latin-1')[:2000] for op in sl if op[0] == 'R' for p in op.split(':', 1)[1].split(',') if os.path.exists(p)}})
            elif nontriv and ('=OK' in tok):
                ck.nontriv((tuple(sl)).__repr__())
        if jobs:
            ck.sample({'history': hists[0], 'results_in_one_process': res[0][:600], 'slice_of_last_call': jobs[len(hists[0]) - 1][2] if len(jobs) >= len(hists[0]) else None})
        # ---- ledger: each history twice, no OpenMP, interposed allocator ---------------------------------------------
        dbl = []
        for ops in hists:
            l = 'hist ' + ' '.join(ops); dbl += [l, l]
        lres = ck.run_lines(kvhc, ['hist R0:%s A0:1:5:%d:%d:%d W0:fasta:%s C0:1 R1:%s F0' % (pool['dna'][0], gen.NG, gen.NG, gen.NG, os.path.join(tmp, 'warm'), pool['bad'][2])] + dbl, timeout=3000)[1:]
        ck.evaluations += len(dbl)
        st2 = ck.corr.setdefault('History ledger vs interposed allocator (no OpenMP): live blocks after freeing every handle', {'cases': 0, 'disagreements': 0})
        for i, ops in enumerate(hists):
            a, b = lres[2 * i], lres[2 * i + 1]
            st2['cases'] += 1
            if a.startswith('CRASH') or b.startswith('CRASH'):
                wit.append({'kind': 'history-crashed', 'history': ops, 'implementation': (a + ' / ' + b)[:500]}); continue
            la, lb = a.rsplit(' live=', 1), b.rsplit(' live=', 1)
            allok = all('=OK' in t or t.startswith('F=') for t in lb[0].split())
            ck.count('ledger:' + ('all-calls-succeed' if allok else 'with-failing-calls'))
            if la[0] != lb[0]:
                wit.append({'kind': 'repeated-history-differs', 'history': ops, 'first': la[0][:600], 'second': lb[0][:600]})
            if int(lb[1]) != 0:
                st2['disagreements'] += 1
                wit.append({'kind': 'allocation-left-behind', 'history': ops, 'live_blocks_after_free': int(lb[1]), 'all_calls_succeeded': allok, 'results': lb[0][:600],
                            'signature_hint': 'failing-call' if not allok else None})
    finally:
        if os.environ.get('KV_KEEP_TMP'):
            print('kept', tmp)
        else:
            shutil.rmtree(tmp, ignore_errors=True)
    seen = {}
    for w in wit:
        seen[w['kind']] = seen.get(w['kind'], 0) + 1
        if seen[w['kind']] <= 2:
            ck.violation('witness', w, signature=w.get('signature_hint'))
    if not wit and not ok:
        ck.violation('proof', {'what_no_longer_checks': ck.proof['failed']}, nofail=True)

def replay(ck, obj):
    print(json.dumps(obj, indent=1)[:6000])
    return 0
