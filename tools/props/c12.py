"""C12 - duplicate input sequences receive identical rows."""
import json, os, re
import gen
from props import numcommon as nc
from props.c07 import alphabet_tables

TYPES = {'dna': [0, 1, 2, 5], 'protein': [3, 4, 5]}

def tables():
    txt = open(os.path.join(os.path.dirname(os.path.dirname(os.path.dirname(os.path.abspath(__file__)))), 'coq', 'Generated', 'Tables.v')).read()
    out = {}
    for name in ('alpha_defDNA', 'alpha_redPROTEIN'):
        m = re.search(r'Definition %s : list Z := \[(.*?)\]' % name, txt, re.S)
        out[name] = [int(x.strip().strip('()')) for x in m.group(1).split(';')]
    return out

def reduce(tab, amb, s):
    a = tab[ord(amb)]
    return [tab[ord(c)] if ord(c) < 128 and tab[ord(c)] != -1 else a for c in s]

def sed(t, p):
    """semi-global edit distance: min over substrings of t of lev(substring, p)  (independent of the Coq spec: plain DP)"""
    prev = list(range(len(p) + 1))
    best = prev[-1]
    for c in t:
        cur = [0]
        for i, q in enumerate(p):
            cur.append(min(prev[i] + (0 if q == c else 1), prev[i + 1] + 1, cur[i] + 1))
        prev = cur
        best = min(best, prev[-1])
    return best

def contained(x, y):
    """x contains y or y contains x (as code lists)"""
    if len(x) >= len(y): return sed(x, y) == 0
    return sed(y, x) == 0

def clade_ok(tree, dup_idx):
    """do the leaves dup_idx form exactly the leaf set of one subtree of the task list a:b:c,...?"""
    kids = {}
    for t in tree.split(','):
        a, b, c = (int(x) for x in t.split(':'))
        kids[c] = (a, b)
    def leaves(x):
        if x not in kids: return {x}
        return leaves(kids[x][0]) | leaves(kids[x][1])
    want = set(dup_idx)
    if len(want) == 1: return True
    return any(leaves(c) == want for c in kids)

def run(ck):
    ck.build(('omp',))
    ck.translate()
    ok = ck.prove()
    kvh = ck.harness('omp', 'kvh')
    rng = ck.rng
    quick = ck.tier == 'quick'
    tabs = tables()
    ck.rule = ('inputs of 2..99 sequences with planted duplicates (multiplicity 2..10, any positions) among evolved relatives; the containment premise (no other sequence contains the duplicated one '
               'or is contained in it, on the nucleotide alphabet resp. the 13-class reduced amino-acid alphabet regenerated from the library) is decided by an independent semi-global edit-distance DP; '
               'cases meeting it must give identical rows for all copies, for every type and thread count. Monitored premise of the proved part: the copies are the leaf set of one subtree of the guide '
               'tree actually used. Correspondence (small cases): UPGMA tree, every merge path and meetup maximum, binary32 model vs implementation. Non-trivial = premise holds, a copy row has a gap; '
               'distinct by (sequences, type)')
    wit, prem_bad = [], []
    cases = []
    N = 90 if quick else 900
    for k in range(N):
        kind = 'dna' if rng.chance(1, 2) else 'protein'
        alpha = gen.DNA if kind == 'dna' else gen.PROT
        n_other = rng.choice([1, 2, 3, 5, 8, 20, 60, 90]) if not quick else rng.choice([1, 2, 3, 5, 8, 20])
        L = rng.range(6, 40)
        root = gen.rand_seq(rng, alpha, L)
        others = []
        while len(others) < n_other:
            others.append(gen.overhang(rng, gen.mutate(rng, rng.choice(others + [root]), alpha, 12, 8), alpha, 6))
        dup = gen.mutate(rng, root, alpha, 10, 6) if rng.chance(2, 3) else root
        if kind == 'protein':
            if rng.chance(1, 2):     # ambiguity letters (X, B, Z, U): code 12 of the reduced alphabet must match itself in the distance kernel
                def sprinkle(x):
                    x = list(x)
                    for _ in range(rng.range(1, 4)):
                        x[rng.below(len(x))] = rng.choice('XXXBZU')
                    return ''.join(x)
                dup = sprinkle(dup); others = [sprinkle(o) if rng.chance(1, 2) else o for o in others]
                ck.count('protein duplicates with ambiguity letters')
            others = [s + 'WKW' for s in others]; dup = dup + 'WKW'
        mult = rng.range(2, min(10, 99 - n_other))
        seqs = others + [dup] * mult
        rng.shuffle(seqs)
        if len(seqs) > 99: seqs = seqs[:99]
        tab, amb = (tabs['alpha_defDNA'], 'N') if kind == 'dna' else (tabs['alpha_redPROTEIN'], 'X')
        rd = reduce(tab, amb, dup)
        prem = all(not contained(reduce(tab, amb, s), rd) for s in set(seqs) if s != dup)
        pens = [gen.NG] * 3
        if k % 9 == 4:       # negative values other than -1 (the README writes the DNA defaults as -8 / -6): still "not set"
            pens = [gen.fbits(-8.0), gen.fbits(-6.0), rng.choice([gen.NG, gen.fbits(-0.5)])]
            ck.count('negative penalty arguments')
        cases.append({'kind': kind, 'seqs': seqs, 'dup': dup, 'type': rng.choice(TYPES[kind]), 'pens': pens, 'threads': rng.choice([1, 1, 8]), 'premise': prem})
        ck.count('containment premise %s' % ('holds' if prem else 'fails (case only used for the correspondence)'))
        ck.count('n:%s' % ('2-9' if len(seqs) < 10 else '10-49' if len(seqs) < 50 else '50-99'))
    small = [c for c in cases if len(c['seqs']) <= 9][: (35 if quick else 250)]
    res, dis = nc.correspond(ck, small, 'Pipeline (binary32: distances, UPGMA, merges) vs the implementation on inputs with duplicates')
    # distances at the word/lane/cap boundaries of the bit-parallel kernel: windows of a longer sequence whose last residue differs
    dlines = []
    for k in range(60 if quick else 500):
        L = rng.choice([70, 130, 300, 300, 402, 402, 600, 1100]) if (not quick or k % 10 == 0) else rng.choice([70, 130, 300, 402])
        D = gen.rand_seq(rng, rng.choice(['ACGT', 'AC', 'ACG']), L)
        seqs = [D]
        for _ in range(rng.range(1, 4)):
            m = rng.choice([62, 63, 64, 65, 127, 128, 129, 254, 255, 256, 257, 511, 512, 1023, 1024, 1025])
            if m > L: m = rng.choice([62, 63, 64, 65])
            a = rng.below(L - m + 1)
            w = D[a:a + m]
            if rng.chance(2, 3):
                w = w[:-1] + rng.choice([c for c in 'ACGT' if c != w[-1]])     # the window's last residue mismatches
            seqs.append(w)
        if rng.chance(1, 3): seqs.append(D)
        dlines.append('dmat ' + ' '.join(gen.hexs(x) for x in seqs))
    # pairs that agree in every cheap fingerprint - length, composition, and the position-weighted GCG checksum msa_check.c computes
    # (weights repeat every 57 positions) - but differ: residues swapped 57 (or 114) positions apart
    for k in range(12 if quick else 80):
        alpha = rng.choice(['ACGT', 'ACDEFGHIKLMNPQRSTVWY'])
        L = rng.choice([120, 150, 200, 300])
        D = gen.rand_seq(rng, alpha, L)
        fam = [D]
        for _ in range(rng.range(2, 3)):
            x = list(D)
            for _ in range(rng.range(1, 3)):
                i = rng.below(L - 114); j = i + rng.choice([57, 114])
                if x[i] != x[j]: x[i], x[j] = x[j], x[i]
            if ''.join(x) != D: fam.append(''.join(x))
        fam.append(D)
        dlines.append('dmat ' + ' '.join(gen.hexs(x) for x in fam))
        ck.count('distance matrix: same length, composition and GCG checksum, different sequences')
    # large distances: unrelated sequences (several hundred edits; the distance is an int, not a byte)
    for k in range(6 if quick else 40):
        la = rng.choice([300, 520, 700, 1000]); lb = rng.choice([260, 300, 520, 900])
        dlines.append('dmat ' + ' '.join(gen.hexs(x) for x in [gen.rand_seq(rng, 'ACGT', la), gen.rand_seq(rng, 'ACGT', lb), gen.rand_seq(rng, 'AC', lb)]))
        ck.count('distance matrix: unrelated sequences (distance > 255)')
    # the length term MIN(10000, (l1+l2)/2)/10000: both sides of its cap (one duplicate pair and a short near-fragment each)
    for (la, lb) in ([(19900, 30), (19990, 30), (22000, 40)] if quick else [(19900, 30), (19970, 30), (19990, 30), (22000, 40), (21000, 700), (10001, 10003)]):
        D = gen.rand_seq(rng, 'ACGT', la)
        a0 = rng.below(la - min(lb, la) + 1)
        w = D[a0:a0 + lb] if lb < la else gen.rand_seq(rng, 'ACGT', lb)
        if lb < la: w = w[:-1] + rng.choice([c for c in 'ACGT' if c != w[-1]])
        dlines.append('dmat ' + ' '.join(gen.hexs(x) for x in [D, w]))
        ck.count('distance matrix: length-term cap family')
    di = ck.run_lines_sharded(kvh, dlines, shards=8, timeout=1800)
    # the extracted model runs on Coq's binary integers: a 10000 x 10000 pair takes minutes, so these cases get a longer per-case limit
    dm = ck.run_lines_sharded(ck.model(), dlines, shards=14, timeout=3000, case_timeout=1200)
    ck.evaluations += len(dlines)
    dst = ck.corr.setdefault('Pipeline.distance_matrix (bpm_block + length term, binary32) vs d_estimation at the 64/256/1024 boundaries', {'cases': 0, 'disagreements': 0})
    for ln, x, y in zip(dlines, di, dm):
        dst['cases'] += 1
        if x != y:
            dst['disagreements'] += 1
            dis.append({'case': ln[:1500], 'what': 'distance matrix differs: implementation %s, model %s' % (x[:200], y[:200])})
    big = [c for c in cases if c not in small]
    # witness family at the same boundaries: a duplicated long low-complexity sequence plus near-windows of boundary length
    for k in range(8 if quick else 60):
        L = rng.choice([300, 402, 520])
        D = gen.rand_seq(rng, rng.choice(['AC', 'ACG', 'ACGT']), L)
        others = []
        for _ in range(rng.range(2, 4)):
            mlen = rng.choice([255, 256, 256, 257, 64, 128])
            a = rng.below(L - mlen + 1)
            w = D[a:a + mlen]
            w = w[:-1] + rng.choice([c for c in 'ACGT' if c != w[-1]])
            others.append(w)
        seqs = [D] + others + [D]
        rng.shuffle(seqs)
        rd = reduce(tabs['alpha_defDNA'], 'N', D)
        prem = all(not contained(reduce(tabs['alpha_defDNA'], 'N', x), rd) for x in set(seqs) if x != D)
        big.append({'kind': 'dna', 'seqs': seqs, 'dup': D, 'type': rng.choice(TYPES['dna']), 'pens': [gen.NG] * 3, 'threads': 1, 'premise': prem})
        ck.count('boundary-window family, premise %s' % ('holds' if prem else 'fails'))
    impl = ck.run_lines_sharded(kvh, [nc.run_line(c['seqs'], c['type'], c['pens'], c['threads'], flags=29) for c in big], shards=12, timeout=3000)
    ck.evaluations += len(big)
    allres = [(c, p) for c, p, pm in res] + [(c, nc.parse_impl(o)) for c, o in zip(big, impl)]
    for c, p in allres:
        if not c['premise']:
            continue
        if not p['ok']:
            wit.append({'kind': 'run-failed', 'seqs': c['seqs'][:12], 'type': c['type']}); continue
        rows = [r for s, r in zip([s for s in c['seqs'] if s], p['rows']) if s == c['dup']]
        if len(set(rows)) > 1:
            wit.append({'kind': 'copies-aligned-differently', 'duplicated_sequence': c['dup'], 'n_sequences': len(c['seqs']), 'seqs': c['seqs'] if len(c['seqs']) <= 14 else c['seqs'][:14],
                        'type': c['type'], 'threads': c['threads'], 'rows_of_the_copies': sorted(set(rows))[:4]})
        else:
            if rows and '-' in rows[0]:
                ck.nontriv((tuple(c['seqs'][:10]), c['type']).__repr__())
        # monitored premise: copies form a clade of the guide tree (indices are positions in the canonical order)
        if p['tree'] and p['sorted']:
            order = [int(x) for x in p['sorted'].split(',')]          # rank (input position among non-empty) of each canonical slot
            live = [s for s in c['seqs'] if s]
            dup_idx = [slot for slot, rank in enumerate(order) if live[rank] == c['dup']]
            if not clade_ok(p['tree'], dup_idx):
                prem_bad.append({'what': 'the copies are not one subtree of the guide tree', 'seqs': c['seqs'][:14], 'tree': p['tree'][:400], 'copy_slots': dup_idx})
    if allres:
        c0, p0 = allres[0]
        ck.sample({'seqs': c0['seqs'][:8], 'duplicated': c0['dup'], 'premise': c0['premise'], 'rows': p0['rows'][:8], 'tree': p0['tree']})
    seen = {}
    for w in wit:
        seen[w['kind']] = seen.get(w['kind'], 0) + 1
        if seen[w['kind']] <= 2:
            ck.violation('witness', w)
    if not wit:
        if not ok:
            ck.violation('proof', {'what_no_longer_checks': ck.proof['failed']}, nofail=True)
        elif dis:
            ck.violation('correspondence', {'what_no_longer_checks': 'correspondence of the binary32 pipeline model (distances, UPGMA, merges) with the implementation', 'first_disagreement': dis[0], 'disagreements': len(dis)}, nofail=True)
        elif prem_bad:
            ck.violation('premise', {'what_no_longer_checks': 'monitored premise of C12_equal_rows_of_a_group_stay_equal: duplicates form a clade', 'case': prem_bad[0], 'count': len(prem_bad)}, nofail=True)

def replay(ck, obj):
    print(json.dumps(obj, indent=1)[:6000])
    return 0
