(* C12 - Duplicate input sequences receive identical rows.
   PARTIAL.  Proved (pure lists, every guide tree, every family of fitting paths): two rows of one group that
   are equal stay equal through every later merge (the merge applies one insertion vector to the whole
   group).  Hence, once the copies of a sequence form one group with equal rows - which is the case when
   they are merged with each other first (a clade of the guide tree) by all-match paths (C08) - they come
   out identical.  That UPGMA makes the copies a clade under the containment premise, and that the kernels
   return the diagonal on equal operands, are statements about binary32 arithmetic; they are not yet
   theorems: the clade premise is MONITORED on every guide tree of every run, the tree and every merge are
   compared bit-exactly between the executable binary32 model and the implementation (DESIGN C12). *)
From Coq Require Import ZArith List Bool Lia.
From KV Require Import Base Weave WeaveProofs WeaveCheck AssemblyProofs DupProofs.
Import ListNotations.
Local Open Scope nat_scope.

Theorem C12_equal_rows_of_a_group_stay_equal : forall seqs tasks st act,
  Inv seqs st act -> valid_run seqs st act tasks ->
  forall i j x, In x act -> In i (members st x) -> In j (members st x) ->
  row_of seqs st i = row_of seqs st j ->
  row_of seqs (run_from st tasks) i = row_of seqs (run_from st tasks) j.
Proof. exact equal_rows_stay_equal. Qed.
Print Assumptions C12_equal_rows_of_a_group_stay_equal.

(* Non-vacuity: a run observed on the implementation (sequences 0 and 1 are copies, merged first by an
   all-match path, then merged with a third sequence that forces gaps): the premises hold at the state after
   the first merge and the two rows are equal at the end *)
Definition dup_seqs : list (list Z) := [[65;67;84;65;67;71;71]; [65;67;71;84;65;67]; [65;67;71;84;65;67]]%Z.
Definition dup_tasks : list task := [(1, 2, 3, [0;0;0;0;0;0]%Z); (0, 3, 4, [0;0;2;0;0;0;0]%Z)].
Example C12_nonvacuous :
  valid_runb dup_seqs (st0 dup_seqs) (seq 0 3) dup_tasks = true /\
  let st1 := run_from (st0 dup_seqs) (firstn 1 dup_tasks) in
  In 1 (members st1 3) /\ In 2 (members st1 3) /\ row_of dup_seqs st1 1 = row_of dup_seqs st1 2 /\
  row_of dup_seqs (run_from (st0 dup_seqs) dup_tasks) 1 = row_of dup_seqs (run_from (st0 dup_seqs) dup_tasks) 2 /\
  row_of dup_seqs (run_from (st0 dup_seqs) dup_tasks) 1 = [65;67;45;71;84;65;67]%Z.
Proof. vm_compute. repeat split; auto. Qed.
