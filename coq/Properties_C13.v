(* C13 - Nucleotide and protein inputs are recognised from their residue letters.
   Statements only; proofs in DetectProofs.v and DetectFloatProofs.v.  The theorems are about the EXACT
   values of the binary64 table entries the running code holds (regenerated on every run), and - through a
   forward error analysis of the two binary64 sums over Flocq's IEEE-754 model (each within 2^-38 * n of the
   exact sum, n = number of counted letters) - about the floating-point computation itself:
   C13_nucleotide_detected / C13_protein_detected state what detect_alphabet RETURNS. *)
From KV Require Import Base FP Detect DetectProofs DetectFloatProofs.
From Coq Require Import Permutation.
Local Open Scope Z_scope.

(* per letter: DNA[c] - protein[c] (in nats): 1.2039..1.2040 for a c g t n, 11.20..11.21 for u,
   -10.28..-10.27 for protein-only letters, -0.2763..-0.2762 for the remaining letters; all table
   entries finite; both cases alike *)
Theorem C13_exact_margins :
  forallb (fun c =>
    (if is_nuc_letter c then (12039 * unit1074 <? 10000 * margin_at c) && (10000 * margin_at c <? 12040 * unit1074) else true) &&
    (if is_u_letter c then (1120 * unit1074 <? 100 * margin_at c) && (100 * margin_at c <? 1121 * unit1074) else true) &&
    (if is_protein_only c then (-1028 * unit1074 <? 100 * margin_at c) && (100 * margin_at c <? -1027 * unit1074) else true) &&
    (if is_other_letter c then (-2763 * unit1074 <? 10000 * margin_at c) && (10000 * margin_at c <? -2762 * unit1074) else true)) idx128 = true
  /\ forallb is_finite64 detect_DNA = true /\ forallb is_finite64 detect_protein = true
  /\ length detect_DNA = 128%nat /\ length detect_protein = 128%nat.
Proof. exact exact_margins_b. Qed.
Print Assumptions C13_exact_margins.

(* Premise 1: all residue letters among A C G T U N (either case), at least one residue:
   the DNA model wins, for all counts. *)
Theorem C13_nucleotide_exact : forall freq,
  length freq = 128%nat -> hist_only nuc_or_u 0 freq -> 0 < total_letters 0 freq ->
  0 < exact_margin freq.
Proof. exact exact_nucleotide. Qed.
Print Assumptions C13_nucleotide_exact.

(* Premise 2: at least a quarter protein-only letters; the protein model wins whenever
   11.21*#u + 1.2040*#acgtn < 10.27*#protein_only - in particular whenever there is no U. *)
Theorem C13_protein_exact : forall freq,
  length freq = 128%nat -> hist_nonneg freq ->
  let total := total_letters 0 freq in
  let po := class_count only_po 0 freq in
  let uc := class_count only_u 0 freq in
  let nuc := class_count is_nuc_letter 0 freq in
  0 < total -> total <= 4 * po -> nuc + uc + po <= total ->
  112100 * uc + 12040 * nuc < 102700 * po ->
  exact_margin freq < 0.
Proof. exact exact_protein. Qed.
Print Assumptions C13_protein_exact.

Theorem C13_protein_exact_no_u : forall freq,
  length freq = 128%nat -> hist_nonneg freq ->
  0 < total_letters 0 freq -> total_letters 0 freq <= 4 * class_count only_po 0 freq ->
  class_count is_nuc_letter 0 freq + class_count only_u 0 freq + class_count only_po 0 freq <= total_letters 0 freq ->
  class_count only_u 0 freq = 0 ->
  exact_margin freq < 0.
Proof. exact exact_protein_no_u. Qed.
Print Assumptions C13_protein_exact_no_u.

(* The property as worded is false for U-rich protein (recorded finding): the model, float sums
   included, classifies UUUEUUUE as nucleotide although a quarter of its letters are protein-only. *)
Theorem C13_premise2_refuted_by_U :
  let h := histogram u_rich in
  (total_letters 0 h <=? 4 * class_count only_po 0 h) = true /\ (0 <? exact_margin h) = true /\
  detect_alphabet h = Some ALN_BIOTYPE_DNA.
Proof. exact u_rich_refutes_premise2. Qed.
Print Assumptions C13_premise2_refuted_by_U.

(* The decision does not depend on the order (or the names) of the sequences: the histogram is
   invariant under permutation, and names never enter it. *)
Theorem C13_order_independent : forall l1 l2, Permutation l1 l2 -> histogram l1 = histogram l2.
Proof. exact histogram_perm. Qed.
Print Assumptions C13_order_independent.

Theorem C13_tables_case_symmetric :
  forallb (fun c => if (65 <=? c) && (c <=? 90) then
     N.eqb (nthZ 0%N detect_DNA c) (nthZ 0%N detect_DNA (c + 32)) &&
     N.eqb (nthZ 0%N detect_protein c) (nthZ 0%N detect_protein (c + 32)) else true) idx128 = true.
Proof. exact tables_case_symmetric_b. Qed.
Print Assumptions C13_tables_case_symmetric.

(* Non-vacuity: a histogram meeting premise 1, one meeting premise 2 *)
Example C13_nonvacuous :
  let h := histogram [[65;67;71;84;117;110]; [97;99;103]] in
  length h = 128%nat /\ (0 <? total_letters 0 h) = true /\ (0 <? exact_margin h) = true /\
  let h2 := histogram [[77;75;86;76;65;65;71;73]; [65;67;71;87]] in
  (total_letters 0 h2 <=? 4 * class_count only_po 0 h2) = true /\ (exact_margin h2 <? 0) = true.
Proof. vm_compute. repeat split; reflexivity. Qed.


(* ---- the binary64 computation itself (counts are C ints: 0 <= c < 2^31) ------------------------------------------- *)
(* the comparison of the two binary64 sums decides like the exact margin unless that margin is below 2^-37 per letter *)
Theorem C13_float_decides_like_exact : forall freq,
  length freq = 128%nat -> Forall (fun c => 0 <= c < 2 ^ 31) freq ->
  let n := total_letters 0 freq in
  1 <= n -> n * unit1074 < 2 ^ 37 * Z.abs (exact_margin freq) ->
  detect_alphabet freq = Some (if 0 <? exact_margin freq then ALN_BIOTYPE_DNA else ALN_BIOTYPE_PROTEIN).
Proof. exact float_decides_like_exact. Qed.
Print Assumptions C13_float_decides_like_exact.

(* Premise 1: only A C G T U N (either case), at least one residue: detect_alphabet returns DNA *)
Theorem C13_nucleotide_detected : forall freq,
  length freq = 128%nat -> Forall (fun c => 0 <= c < 2 ^ 31) freq -> hist_only nuc_or_u 0 freq -> 0 < total_letters 0 freq ->
  detect_alphabet freq = Some ALN_BIOTYPE_DNA.
Proof. exact nucleotide_detected. Qed.
Print Assumptions C13_nucleotide_detected.

(* Premise 2 without U: at least a quarter protein-only letters: detect_alphabet returns protein *)
Theorem C13_protein_detected : forall freq,
  length freq = 128%nat -> Forall (fun c => 0 <= c < 2 ^ 31) freq ->
  0 < total_letters 0 freq -> total_letters 0 freq <= 4 * class_count only_po 0 freq ->
  class_count is_nuc_letter 0 freq + class_count only_u 0 freq + class_count only_po 0 freq <= total_letters 0 freq ->
  class_count only_u 0 freq = 0 ->
  detect_alphabet freq = Some ALN_BIOTYPE_PROTEIN.
Proof. exact protein_detected. Qed.
Print Assumptions C13_protein_detected.
