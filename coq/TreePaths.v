(* C01, one more step towards the code: the task list is BUILT from the schedule of a guide tree and one raw path per
   merge (what the DP kernels hand to add_gap_info).  For EVERY guide tree and EVERY family of raw paths that are
   well-formed for the widths of the two groups at the moment of the merge (kpath_wfb - the monitored premise, and the
   only one left), the run is valid and the alignment has the integrity properties of C01. *)
From Coq Require Import ZArith List Bool Lia Permutation.
From KV Require Import Base Weave WeaveProofs WeaveCheck PathProofs AssemblyProofs Pipeline CladeTasks TreeSchedule TreeAssembly.
Import ListNotations.
Local Open Scope nat_scope.

Section TP.
Variable seqs : list (list Z).

Fixpoint build_tasks (st : wstate) (sched : list (nat * nat * nat)) (paths : list (list Z)) : option (list task) :=
  match sched, paths with
  | [], _ => Some []
  | (a, b, c) :: rest, p :: ps =>
    let lb := Z.of_nat (width_of seqs st b) in
    if kpath_wfb lb p && Nat.eqb (length p) (width_of seqs st a) then
      match add_gap_info lb p with
      | Some ops =>
        match build_tasks (merge_step st a b c ops) rest ps with
        | Some ts => Some ((a, b, c, ops) :: ts)
        | None => None
        end
      | None => None
      end
    else None
  | _ :: _, [] => None
  end.

Lemma width_ok_width_of st x w : width_ok seqs st x w -> members st x <> [] -> width_of seqs st x = w.
Proof.
  intros W Hne. unfold width_of. destruct (members st x) as [|i l] eqn:E; [contradiction|]. apply W. rewrite E. left. reflexivity.
Qed.
Lemma width_ok_widths_okb st x w : width_ok seqs st x w -> members st x <> [] -> widths_okb seqs st x = true.
Proof.
  intros W Hne. unfold widths_okb. apply forallb_forall. intros i Hi. apply Nat.eqb_eq.
  rewrite (width_ok_width_of st x w W Hne). apply W. exact Hi.
Qed.
Lemma ops_fit_fitb ks la lb : ops_fit ks la lb -> ops_fitb ks la lb = true.
Proof. intros (A & B & C). unfold ops_fitb. rewrite A, B, C, !Nat.eqb_refl. reflexivity. Qed.

Lemma build_valid : forall sched paths st act tasks,
  Inv2 seqs st act -> (forall x, In x act -> members st x <> []) ->
  sched_ok act sched -> Forall (fun q => tc q < length (w_sip st)) sched ->
  build_tasks st sched paths = Some tasks ->
  valid_runb seqs st act tasks = true /\ map strip tasks = sched.
Proof.
  induction sched as [|[[a b] c] rest IH]; intros paths st act tasks HI Hne Hs Hc Hb.
  - cbn [build_tasks] in Hb. inversion Hb; subst. split; reflexivity.
  - destruct paths as [|p ps]; [discriminate Hb|]. cbn [build_tasks] in Hb. cbv zeta in Hb.
    destruct (kpath_wfb (Z.of_nat (width_of seqs st b)) p) eqn:Ewf; [|discriminate Hb]. cbn [andb] in Hb.
    destruct (Nat.eqb (length p) (width_of seqs st a)) eqn:Elen; [|discriminate Hb]. apply Nat.eqb_eq in Elen.
    destruct (expand_path_counts _ _ Ewf) as (ops & Eops & Hfit). rewrite Eops in Hb. rewrite Nat2Z.id, Elen in Hfit.
    destruct (build_tasks (merge_step st a b c ops) rest ps) as [ts|] eqn:Ets; [|discriminate Hb]. inversion Hb; subst tasks. clear Hb.
    cbn [sched_ok] in Hs. destruct Hs as (Ha & Hbb & Hab & Hnc & Hrest).
    inversion Hc as [|? ? Hc1 Hc2]; subst. unfold tc in Hc1. cbn [snd] in Hc1.
    destruct (inv2_width seqs st act HI a Ha) as (wa & Wa & _). destruct (inv2_width seqs st act HI b Hbb) as (wb & Wb & _).
    pose proof (Hne a Ha) as Na. pose proof (Hne b Hbb) as Nb.
    pose proof (width_ok_width_of st a wa Wa Na) as Ewa. pose proof (width_ok_width_of st b wb Wb Nb) as Ewb.
    rewrite Ewa, Ewb in Hfit.
    assert (Inv2 seqs (merge_step st a b c ops) (act_after act a b c)) as HI'.
    { apply (merge_step_inv2 seqs st act a b c ops wa wb); assumption. }
    assert (forall x, In x (act_after act a b c) -> members (merge_step st a b c ops) x <> []) as Hne'.
    { intros x Hx. apply in_act_after in Hx as [->|(Hx & Hxa & Hxb)].
      - rewrite members_step_c by exact Hc1. intros Q. apply app_eq_nil in Q as (Q & _). destruct (members st a) as [|i l]; [contradiction|].
        cbn [rev] in Q. apply app_eq_nil in Q as (_ & Q). discriminate Q.
      - rewrite members_step_other by (intros ->; contradiction). apply Hne. exact Hx. }
    destruct (IH ps (merge_step st a b c ops) (act_after act a b c) ts HI' Hne' Hrest) as (V & M); [|exact Ets|].
    { eapply Forall_impl; [|exact Hc2]. cbn beta. intros q Hq. rewrite merge_step_sip_length. exact Hq. }
    split; [|cbn [map strip fst]; rewrite M; reflexivity].
    cbn [valid_runb].
    assert (negb (Nat.eqb a b) = true) as E1 by (apply negb_true_iff; apply Nat.eqb_neq; exact Hab).
    assert (negb (memb c act) = true) as E2 by (apply negb_true_iff; destruct (memb c act) eqn:E; [apply memb_In in E; contradiction|reflexivity]).
    assert (Nat.ltb c (length (w_sip st)) = true) as E3 by (apply Nat.ltb_lt; exact Hc1).
    assert (negb (Nat.eqb (length (members st a)) 0) = true) as E4 by (destruct (members st a); [contradiction|reflexivity]).
    assert (negb (Nat.eqb (length (members st b)) 0) = true) as E5 by (destruct (members st b); [contradiction|reflexivity]).
    rewrite (proj2 (memb_In a act) Ha), (proj2 (memb_In b act) Hbb), E1, E2, E3, E4, E5.
    rewrite (width_ok_widths_okb st a wa Wa Na), (width_ok_widths_okb st b wb Wb Nb), Ewa, Ewb, (ops_fit_fitb _ _ _ Hfit), V. reflexivity.
Qed.
End TP.

Theorem integrity_every_tree_every_wf_path : forall seqs,
  Forall (Forall (fun c => c <> dash)) seqs ->
  forall t, NoDup (leaves t) -> (forall i, In i (leaves t) <-> i < length seqs) ->
  forall paths tasks,
  build_tasks seqs (st0 seqs) (sort_tasks (tasks_of (fst (label t (length seqs))))) paths = Some tasks ->
  let final := run_from (st0 seqs) tasks in
  (forall i, i < length seqs -> degap (row_of seqs final i) = nth i seqs []) /\
  exists w, (forall i, i < length seqs -> length (row_of seqs final i) = w) /\
            (forall j, j < w -> exists i, i < length seqs /\ nth j (row_of seqs final i) dash <> dash).
Proof.
  intros seqs Hd t Hnd Hlv paths tasks Hb final.
  assert (forall i, In i (leaves t) -> i < length seqs) as Hlt by (intros i; apply Hlv).
  destruct (build_valid seqs (sort_tasks (tasks_of (fst (label t (length seqs))))) paths (st0 seqs) (seq 0 (length seqs)) tasks) as (Hv & Hs); [apply st0_inv2; exact Hd| |apply tree_schedule_ok; assumption| |exact Hb|].
  - intros x Hx. apply in_seq in Hx. rewrite st0_members by lia. discriminate.
  - rewrite st0_sip_length. apply sort_tasks_Forall. pose proof (tasks_in (fst (label t (length seqs)))) as Hin.
    eapply Forall_impl; [|exact Hin]. intros [[a b] c] (_ & _ & Hc). unfold tc. cbn [snd].
    pose proof (label_spec t (length seqs)) as (_ & H2 & _). pose proof (label_bound t (length seqs)) as (Hb1 & Hb2).
    assert (length (leaves t) <= length seqs) as Hle.
    { apply NoDup_incl_length with (l' := seq 0 (length seqs)) in Hnd; [rewrite seq_length in Hnd; exact Hnd|].
      intros i Hi. apply in_seq. specialize (Hlt _ Hi). lia. }
    destruct (H2 _ Hc) as [Q|Q]; [specialize (Hlt _ Q); lia|lia].
  - pose proof (assembly_integrity seqs Hd tasks Hv) as (A1 & A2). split; [exact A1|].
    apply (A2 (lid (fst (label t (length seqs))))).
    rewrite act_final_acts, Hs. apply tree_final_act; assumption.
Qed.

(* ---- C10 for every guide tree and every family of well-formed raw paths ---- *)
Lemma valid_runb_app seqs : forall t1 t2 st act, valid_runb seqs st act (t1 ++ t2) = true ->
  valid_runb seqs st act t1 = true /\ valid_runb seqs (run_from st t1) (act_final act t1) t2 = true.
Proof.
  induction t1 as [|[[[a b] c] ops] t1 IH]; intros t2 st act H; [split; [reflexivity|exact H]|].
  cbn [app valid_runb] in H. apply andb_true_iff in H as [H1 H2].
  destruct (IH t2 _ _ H2) as (A & B). split.
  - cbn [valid_runb]. rewrite H1, A. reflexivity.
  - cbn [run_from fold_left act_final]. exact B.
Qed.

Theorem blocks_preserved_every_tree_every_wf_path : forall seqs,
  Forall (Forall (fun c => c <> dash)) seqs ->
  forall t, NoDup (leaves t) -> (forall i, In i (leaves t) <-> i < length seqs) ->
  forall paths tasks,
  build_tasks seqs (st0 seqs) (sort_tasks (tasks_of (fst (label t (length seqs))))) paths = Some tasks ->
  forall t1 t2, tasks = t1 ++ t2 ->
  let mid := run_from (st0 seqs) t1 in
  forall x S, In x (act_final (seq 0 (length seqs)) t1) -> incl S (members mid x) ->
  strip_allgap (map (row_of seqs (run_from (st0 seqs) tasks)) S) = strip_allgap (map (row_of seqs mid) S).
Proof.
  intros seqs Hd t Hnd Hlv paths tasks Hb t1 t2 E mid x S Hx HS.
  assert (forall i, In i (leaves t) -> i < length seqs) as Hlt by (intros i; apply Hlv).
  destruct (build_valid seqs (sort_tasks (tasks_of (fst (label t (length seqs))))) paths (st0 seqs) (seq 0 (length seqs)) tasks) as (Hv & _); [apply st0_inv2; exact Hd| |apply tree_schedule_ok; assumption| |exact Hb|].
  - intros y Hy. apply in_seq in Hy. rewrite st0_members by lia. discriminate.
  - rewrite st0_sip_length. apply sort_tasks_Forall. pose proof (tasks_in (fst (label t (length seqs)))) as Hin.
    eapply Forall_impl; [|exact Hin]. intros [[a b] c] (_ & _ & Hc). unfold tc. cbn [snd].
    pose proof (label_spec t (length seqs)) as (_ & H2 & _). pose proof (label_bound t (length seqs)) as (Hb1 & Hb2).
    assert (length (leaves t) <= length seqs) as Hle.
    { apply NoDup_incl_length with (l' := seq 0 (length seqs)) in Hnd; [rewrite seq_length in Hnd; exact Hnd|].
      intros i Hi. apply in_seq. specialize (Hlt _ Hi). lia. }
    destruct (H2 _ Hc) as [Q|Q]; [specialize (Hlt _ Q); lia|lia].
  - subst tasks. destruct (valid_runb_app seqs t1 t2 _ _ Hv) as (V1 & V2).
    pose proof (valid_runb_inv2 seqs t1 (st0 seqs) (seq 0 (length seqs)) (st0_inv2 seqs Hd) V1) as HI. fold mid in HI, V2.
    destruct (inv2_width seqs _ _ HI x Hx) as (w & Wx & _).
    unfold run_from at 1. rewrite fold_left_app. fold (run_from (st0 seqs) t1). fold mid. fold (run_from mid t2).
    apply (run_preserves_blocks seqs t2 mid (act_final (seq 0 (length seqs)) t1) (inv2_inv seqs _ _ HI) (valid_runb_ok seqs t2 _ _ V2) S x w Hx HS Wx).
Qed.
