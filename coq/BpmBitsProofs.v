(* C11: the one-word bit-parallel routine computes the column DP (Myers 1999 / Hyyro 2001), proved
   bit by bit: (A) the cell function on delta encodings, (B) a row-serial column step and its relation
   to the column DP next_col, (C) the word-level formulas of bpm() equal the row-serial step - the
   adder's carry chain IS the chain of "horizontal delta = -1" -, (D) the invariant over the text. *)
From Coq Require Import ZArith List Bool Lia.
From KV Require Import Base Bpm BpmBits.
Import ListNotations.
Local Open Scope Z_scope.

(* ---- (A) one cell ------------------------------------------------------------------------------------- *)
Definition dv (p n : bool) : Z := b2z p - b2z n.

(* e: p_i = t_j; (vp, vn): old vertical delta D[i][j-1]-D[i-1][j-1]; (hp, hn): horizontal delta of the row above
   D[i-1][j]-D[i-1][j-1].  Returns ((new vertical delta), (horizontal delta of this row)). *)
Definition cellf (e vp vn hp hn : bool) : (bool * bool) * (bool * bool) :=
  let d0 := e || vn || hn in
  ((hn || negb (d0 || hp), hp && d0), (vn || negb (d0 || vp), vp && d0)).

Lemma cell_spec : forall (e vp vn hp hn : bool) (a : Z), vp && vn = false -> hp && hn = false ->
  let up := a + dv vp vn in
  let l := a + dv hp hn in
  let d := Z.min (Z.min (a + (if e then 0 else 1)) (up + 1)) (l + 1) in
  let r := cellf e vp vn hp hn in
  fst (fst r) && snd (fst r) = false /\ fst (snd r) && snd (snd r) = false /\
  dv (fst (fst r)) (snd (fst r)) = d - l /\ dv (fst (snd r)) (snd (snd r)) = d - up.
Proof.
  intros e vp vn hp hn a V H.
  destruct e, vp, vn, hp, hn; try discriminate; cbn; unfold dv, b2z; repeat split; lia.
Qed.

(* ---- (B) a column, row by row ---------------------------------------------------------------------------- *)
Fixpoint serial (eqs vps vns : list bool) (hp hn : bool) : (list bool * list bool) * (list bool * list bool) :=
  match eqs, vps, vns with
  | e :: eqs', vp :: vps', vn :: vns' =>
    let r := cellf e vp vn hp hn in
    let rest := serial eqs' vps' vns' (fst (snd r)) (snd (snd r)) in
    ((fst (fst r) :: fst (fst rest), snd (fst r) :: snd (fst rest)),
     (fst (snd r) :: fst (snd rest), snd (snd r) :: snd (snd rest)))
  | _, _, _ => (([], []), ([], []))
  end.

(* column values from the value above the first row and the vertical deltas *)
Fixpoint vals (a : Z) (vps vns : list bool) : list Z :=
  match vps, vns with
  | vp :: vps', vn :: vns' => (a + dv vp vn) :: vals (a + dv vp vn) vps' vns'
  | _, _ => []
  end.
Fixpoint valid (ps ns : list bool) : Prop :=
  match ps, ns with
  | p :: ps', n :: ns' => p && n = false /\ valid ps' ns'
  | _, _ => True
  end.
Fixpoint zipdv (ps ns : list bool) : list Z :=
  match ps, ns with p :: ps', n :: ns' => dv p n :: zipdv ps' ns' | _, _ => [] end.
Fixpoint zipsub (a b : list Z) : list Z :=
  match a, b with x :: a', y :: b' => (x - y) :: zipsub a' b' | _, _ => [] end.

Lemma serial_next_col : forall c p vps vns hp hn diag,
  length vps = length p -> length vns = length p -> valid vps vns -> hp && hn = false ->
  let r := serial (map (fun pi => pi =? c) p) vps vns hp hn in
  let new := next_col c p (vals diag vps vns) diag (diag + dv hp hn) in
  new = vals (diag + dv hp hn) (fst (fst r)) (snd (fst r)) /\
  valid (fst (fst r)) (snd (fst r)) /\
  zipdv (fst (snd r)) (snd (snd r)) = zipsub new (vals diag vps vns) /\
  length (fst (fst r)) = length p /\ length (snd (fst r)) = length p /\
  length (fst (snd r)) = length p /\ length (snd (snd r)) = length p.
Proof.
  intros c p. induction p as [|pi p IH]; intros vps vns hp hn diag L1 L2 V H.
  - destruct vps; [|discriminate]. destruct vns; [|discriminate]. cbn. repeat split; reflexivity.
  - destruct vps as [|vp vps]; [discriminate|]. destruct vns as [|vn vns]; [discriminate|].
    cbn [length] in L1, L2. injection L1 as L1. injection L2 as L2. destruct V as [V0 V].
    cbn [map serial vals next_col].
    pose proof (cell_spec (pi =? c) vp vn hp hn diag V0 H) as (C1 & C2 & C3 & C4).
    set (r0 := cellf (pi =? c) vp vn hp hn) in *.
    set (up := diag + dv vp vn) in *.
    set (d := Z.min (Z.min (diag + (if pi =? c then 0 else 1)) (up + 1)) (diag + dv hp hn + 1)) in *.
    specialize (IH vps vns (fst (snd r0)) (snd (snd r0)) up L1 L2 V C2).
    cbn zeta in IH.
    assert (E : up + dv (fst (snd r0)) (snd (snd r0)) = d) by lia.
    rewrite E in IH. destruct IH as (I1 & I2 & I3 & I4 & I5 & I6 & I7).
    cbn [fst snd].
    split; [|split; [|split; [|split; [|split; [|split]]]]].
    + cbn [vals]. rewrite I1. f_equal; [lia|]. f_equal. lia.
    + cbn [valid]. split; assumption.
    + cbn [zipdv zipsub]. rewrite I3. f_equal. exact C4.
    + cbn [length]. f_equal. exact I4.
    + cbn [length]. f_equal. exact I5.
    + cbn [length]. f_equal. exact I6.
    + cbn [length]. f_equal. exact I7.
Qed.

(* rows are processed top-down: the first k rows do not depend on the rows below *)
Lemma serial_firstn : forall k eqs vps vns hp hn,
  let r := serial eqs vps vns hp hn in
  serial (firstn k eqs) (firstn k vps) (firstn k vns) hp hn =
  ((firstn k (fst (fst r)), firstn k (snd (fst r))), (firstn k (fst (snd r)), firstn k (snd (snd r)))).
Proof.
  induction k as [|k IH]; intros eqs vps vns hp hn; [reflexivity|].
  destruct eqs as [|e eqs]; [reflexivity|]. destruct vps as [|vp vps]; [reflexivity|]. destruct vns as [|vn vns]; [reflexivity|].
  cbn [firstn serial fst snd]. rewrite IH. reflexivity.
Qed.

(* ---- (C) the word-level formulas are the row-serial step --------------------------------------------------- *)
Definition word_step (Eq VP VN : word) (cin hpin hnin : bool) : (word * word) * (word * word) :=
  let X := wor Eq VN in
  let D0 := wor (wxor (wadd_c VP (wand X VP) cin) VP) X in
  let HN := wand VP D0 in
  let HP := wor VN (wnotb (wor VP D0)) in
  let X1 := wshl_in HP hpin in
  let VN' := wand X1 D0 in
  let VP' := wor (wshl_in HN hnin) (wnotb (wor X1 D0)) in
  ((VP', VN'), (HP, HN)).

Lemma word_step_cons e Eq vp VP vn VN cin hpin hnin :
  word_step (e :: Eq) (vp :: VP) (vn :: VN) cin hpin hnin =
  let x := e || vn in
  let d0 := xorb (xorb (xorb vp (x && vp)) cin) vp || x in
  let hn := vp && d0 in
  let hp := vn || negb (vp || d0) in
  let rest := word_step Eq VP VN (maj vp (x && vp) cin) hp hn in
  (((hnin || negb (hpin || d0)) :: fst (fst rest), (hpin && d0) :: snd (fst rest)),
   (hp :: fst (snd rest), hn :: snd (snd rest))).
Proof. reflexivity. Qed.

Lemma word_step_serial : forall Eq VP VN hpin hnin, length VP = length Eq -> length VN = length Eq ->
  valid VP VN -> word_step Eq VP VN hnin hpin hnin = serial Eq VP VN hpin hnin.
Proof.
  induction Eq as [|e Eq IH]; intros VP VN hpin hnin L1 L2 V.
  - destruct VP; [|discriminate]. destruct VN; [|discriminate]. reflexivity.
  - destruct VP as [|vp VP]; [discriminate|]. destruct VN as [|vn VN]; [discriminate|].
    cbn [length] in L1, L2. injection L1 as L1. injection L2 as L2. destruct V as [V0 V].
    rewrite word_step_cons. cbn zeta. cbn [serial].
    (* with the adder's carry-in equal to the hn input: d0, hp, hn and the carry-out are the cell function's *)
    assert (D0 : xorb (xorb (xorb vp ((e || vn) && vp)) hnin) vp || (e || vn) = e || vn || hnin)
      by (destruct e, vp, vn, hnin; try discriminate; reflexivity).
    rewrite D0.
    assert (CARRY : maj vp ((e || vn) && vp) hnin = vp && (e || vn || hnin))
      by (destruct e, vp, vn, hnin; try discriminate; reflexivity).
    rewrite CARRY.
    unfold cellf. cbn [fst snd].
    replace (vn || negb (vp || (e || vn || hnin))) with (vn || negb (e || vn || hnin || vp))
      by (destruct e, vp, vn, hnin; reflexivity).
    replace (hnin || negb (hpin || (e || vn || hnin))) with (hnin || negb (e || vn || hnin || hpin))
      by (destruct e, vn, hnin, hpin; reflexivity).
    rewrite (IH VP VN (vn || negb (e || vn || hnin || vp)) (vp && (e || vn || hnin)) L1 L2 V).
    reflexivity.
Qed.

(* ---- (D) the text loop ------------------------------------------------------------------------------------- *)
Lemma serial_length : forall eqs vps vns hp hn, length vps = length eqs -> length vns = length eqs ->
  let r := serial eqs vps vns hp hn in
  length (fst (fst r)) = length eqs /\ length (snd (fst r)) = length eqs /\
  length (fst (snd r)) = length eqs /\ length (snd (snd r)) = length eqs.
Proof.
  induction eqs as [|e eqs IH]; intros vps vns hp hn L1 L2.
  - destruct vps; [|discriminate]. destruct vns; [|discriminate]. cbn. auto.
  - destruct vps as [|vp vps]; [discriminate|]. destruct vns as [|vn vns]; [discriminate|].
    cbn [length] in L1, L2. injection L1 as L1. injection L2 as L2.
    cbn [serial fst snd length].
    destruct (IH vps vns (fst (snd (cellf e vp vn hp hn))) (snd (snd (cellf e vp vn hp hn))) L1 L2) as (A & B & C & D).
    cbn zeta in *. rewrite A, B, C, D. auto.
Qed.

Lemma serial_valid : forall eqs vps vns hp hn, valid vps vns -> hp && hn = false ->
  valid (fst (fst (serial eqs vps vns hp hn))) (snd (fst (serial eqs vps vns hp hn))).
Proof.
  induction eqs as [|e eqs IH]; intros vps vns hp hn V H; [exact I|].
  destruct vps as [|vp vps]; [exact I|]. destruct vns as [|vn vns]; [exact I|].
  destruct V as [V0 V]. cbn [serial fst snd valid].
  destruct (cell_spec e vp vn hp hn 0 V0 H) as (C1 & C2 & _). split; [exact C1|]. apply IH; assumption.
Qed.

Lemma eq_rows : forall (c : Z) p,
  map (fun i => match nth_error p i with Some x => x =? c | None => false end) (seq 0 (length p)) = map (fun x => x =? c) p.
Proof.
  intros c p. induction p as [|x p IH]; [reflexivity|].
  cbn [length seq map nth_error]. f_equal. rewrite <- seq_shift, map_map. cbn [nth_error]. exact IH.
Qed.

Lemma firstn_seq0 : forall m k, (m <= k)%nat -> firstn m (seq 0 k) = seq 0 m.
Proof.
  intros m k H. replace k with (m + (k - m))%nat by lia. rewrite seq_app, firstn_app, seq_length.
  replace (m - m)%nat with 0%nat by lia. cbn [firstn]. rewrite app_nil_r.
  rewrite <- (seq_length m 0) at 1. apply firstn_all.
Qed.

Lemma eq_word_firstn c p : (length p <= W)%nat -> firstn (length p) (eq_word c p) = map (fun x => x =? c) p.
Proof.
  intro H. unfold eq_word. rewrite firstn_map, firstn_seq0 by exact H. apply eq_rows.
Qed.

Lemma nth_zipdv : forall ps ns i, (i < length ps)%nat -> length ns = length ps ->
  nth i (zipdv ps ns) 0 = dv (nth i ps false) (nth i ns false).
Proof.
  induction ps as [|p ps IH]; intros ns i Hi L; [simpl in Hi; lia|].
  destruct ns as [|n ns]; [discriminate|]. destruct i; [reflexivity|]. cbn [zipdv nth]. apply IH; simpl in *; lia.
Qed.
Lemma nth_zipsub : forall a b i, (i < length a)%nat -> length b = length a ->
  nth i (zipsub a b) 0 = nth i a 0 - nth i b 0.
Proof.
  induction a as [|x a IH]; intros b i Hi L; [simpl in Hi; lia|].
  destruct b as [|y b]; [discriminate|]. destruct i; [reflexivity|]. cbn [zipsub nth]. apply IH; simpl in *; lia.
Qed.
Lemma last_nth : forall (l : list Z) d, last l d = nth (length l - 1) l d.
Proof.
  induction l as [|x l IH]; intro d; [reflexivity|]. destruct l as [|y l]; [reflexivity|].
  change (last (x :: y :: l) d) with (last (y :: l) d). rewrite IH. cbn [length].
  replace (S (S (length l)) - 1)%nat with (S (length l)) by lia.
  replace (S (length l) - 1)%nat with (length l) by lia. reflexivity.
Qed.
Lemma vals_length : forall vps vns a, length vns = length vps -> length (vals a vps vns) = length vps.
Proof.
  induction vps as [|vp vps IH]; intros vns a L; [reflexivity|]. destruct vns as [|vn vns]; [discriminate|].
  cbn [vals length]. f_equal. apply IH. simpl in L. lia.
Qed.
Lemma valid_firstn : forall k ps ns, valid ps ns -> valid (firstn k ps) (firstn k ns).
Proof.
  induction k as [|k IH]; intros ps ns V; [exact I|]. destruct ps as [|p ps]; [exact I|]. destruct ns as [|n ns]; [exact I|].
  destruct V as [V0 V]. cbn [firstn valid]. split; [exact V0|apply IH; exact V].
Qed.

Lemma nth_firstn_lt {X} : forall k i (l : list X) d, (i < k)%nat -> nth i (firstn k l) d = nth i l d.
Proof.
  induction k as [|k IH]; intros i l d H; [lia|]. destruct l as [|x l]; [destruct i; reflexivity|].
  destruct i; [reflexivity|]. cbn [firstn nth]. apply IH. lia.
Qed.

Strategy 1000 [eq_word serial word_step W].

Section Text.
Variable p : list Z.
Let m := length p.
Hypothesis Hm : (1 <= m <= 63)%nat.

Definition Inv64 (st : word * word * Z * Z) (cb : list Z * Z) : Prop :=
  let '(VP, VN, diff, k) := st in
  let '(col, best) := cb in
  length VP = W /\ length VN = W /\ valid VP VN /\
  col = vals 0 (firstn m VP) (firstn m VN) /\ diff = nth (m - 1) col 0 /\ k = best.

Lemma bpm_step_is_word_step c VP VN diff k :
  bpm_step p m (VP, VN, diff, k) c =
  let r := word_step (eq_word c p) VP VN false false false in
  let diff' := diff + b2z (wbit (fst (snd r)) (m - 1)) - b2z (wbit (snd (snd r)) (m - 1)) in
  (fst (fst r), snd (fst r), diff', if diff' <? k then diff' else k).
Proof. reflexivity. Qed.

Lemma step_inv : forall st cb c, Inv64 st cb ->
  Inv64 (bpm_step p m st c)
        (let col' := next_col c p (fst cb) 0 0 in (col', Z.min (snd cb) (last col' 0))).
Proof.
  intros [[[VP VN] diff] k] [col best] c (L1 & L2 & V & Hc & Hd & Hk).
  rewrite bpm_step_is_word_step.
  assert (LE : length (eq_word c p) = W) by (unfold eq_word; rewrite map_length, seq_length; reflexivity).
  rewrite (word_step_serial (eq_word c p) VP VN false false) by (rewrite ?LE; assumption).
  set (r := serial (eq_word c p) VP VN false false).
  destruct (serial_length (eq_word c p) VP VN false false) as (A1 & A2 & A3 & A4); try (rewrite LE; assumption).
  fold r in A1, A2, A3, A4. rewrite LE in A1, A2, A3, A4.
  pose proof (serial_valid (eq_word c p) VP VN false false V eq_refl) as V'. fold r in V'.
  pose proof (serial_firstn m (eq_word c p) VP VN false false) as F. cbn zeta in F. fold r in F.
  assert (mW : (m <= W)%nat) by (unfold W; lia).
  unfold m in F at 1. rewrite (eq_word_firstn c p mW) in F. fold m in F.
  assert (Lp1 : length (firstn m VP) = length p) by (rewrite firstn_length; fold m; lia).
  assert (Lp2 : length (firstn m VN) = length p) by (rewrite firstn_length; fold m; lia).
  pose proof (serial_next_col c p (firstn m VP) (firstn m VN) false false 0 Lp1 Lp2 (valid_firstn m VP VN V) eq_refl) as S.
  assert (Z0 : 0 + dv false false = 0) by reflexivity.
  cbn zeta in S. rewrite F in S. cbn [fst snd] in S. rewrite !Z0 in S. rewrite <- Hc in S.
  destruct S as (S1 & S2 & S3 & S4 & S5 & S6 & S7).
  assert (Lnew : length (next_col c p col 0 0) = m).
  { rewrite S1. rewrite vals_length; [rewrite S4; reflexivity|rewrite S5, S4; reflexivity]. }
  assert (Lcol : length col = m) by (rewrite Hc; rewrite vals_length; [exact Lp1|rewrite Lp2, Lp1; reflexivity]).
  pose proof (f_equal (fun l => nth (m - 1) l 0) S3) as E. cbn beta in E.
  rewrite nth_zipdv in E by (rewrite ?S6, ?S7; fold m; lia).
  rewrite nth_zipsub in E by (rewrite ?Lnew, ?Lcol; lia).
  rewrite !nth_firstn_lt in E by lia.
  unfold dv in E.
  set (d' := diff + b2z (wbit (fst (snd r)) (m - 1)) - b2z (wbit (snd (snd r)) (m - 1))).
  assert (D' : d' = nth (m - 1) (next_col c p col 0 0) 0) by (unfold d', wbit; lia).
  cbn [fst snd]. unfold Inv64. split; [exact A1|]. split; [exact A2|]. split; [exact V'|].
  split; [exact S1|]. split; [exact D'|].
  rewrite Hk, last_nth, Lnew, <- D'. subst d'.
  match goal with |- (if ?x <? _ then _ else _) = _ => destruct (Z.ltb_spec x best) as [Hlt|Hge] end.
  - rewrite Z.min_r; [reflexivity|apply Z.lt_le_incl; exact Hlt].
  - rewrite Z.min_l; [reflexivity|exact Hge].
Qed.

Lemma init_inv : Inv64 (repeat true m ++ repeat false (W - m), repeat false W, Z.of_nat m, Z.of_nat m)
                       (map (fun i => Z.of_nat i + 1) (seq 0 m), Z.of_nat m).
Proof.
  unfold Inv64. assert (mW : (m <= W)%nat) by (unfold W; lia).
  split; [|split; [|split; [|split; [|split; [|reflexivity]]]]].
  - rewrite app_length, !repeat_length. lia.
  - apply repeat_length.
  - (* valid: the minus word is all zero *)
    assert (G : forall (ps : list bool) k, (length ps <= k)%nat -> valid ps (repeat false k)).
    { induction ps as [|x ps IH]; intros k Hk; [exact I|]. destruct k; [simpl in Hk; lia|].
      cbn [repeat valid]. split; [apply andb_false_r|apply IH; simpl in Hk; lia]. }
    apply G. rewrite app_length, !repeat_length. lia.
  - rewrite firstn_app, repeat_length. replace (m - m)%nat with 0%nat by lia. cbn [firstn]. rewrite app_nil_r.
    rewrite firstn_all2 by (rewrite repeat_length; lia).
    replace (firstn m (repeat false W)) with (repeat false m).
    2:{ clear -mW. revert mW. generalize W. induction m as [|k IH]; intros w Hw; [reflexivity|]. destruct w; [lia|]. cbn [repeat firstn]. f_equal. apply IH. lia. }
    assert (G : forall k a, vals a (repeat true k) (repeat false k) = map (fun i => a + Z.of_nat i + 1) (seq 0 k)).
    { induction k as [|k IH]; intro a; [reflexivity|]. cbn [repeat vals seq map]. unfold dv at 1. cbn [b2z].
      f_equal; [lia|]. rewrite IH. rewrite <- seq_shift, map_map. apply map_ext. intro i. unfold dv. cbn [b2z]. lia. }
    rewrite G. apply map_ext. intro i. lia.
  - rewrite (nth_indep _ 0 (Z.of_nat (m - 1) + 1)) by (rewrite map_length, seq_length; lia).
    rewrite (map_nth (fun i => Z.of_nat i + 1)). rewrite seq_nth by lia. lia.
Qed.

Theorem bpm64_bits_is_sed : forall t, bpm64_bits t p = sed t p.
Proof.
  intro t. unfold bpm64_bits, sed.
  assert (P63 : firstn 63 p = p) by (apply firstn_all2; fold m; lia).
  rewrite P63. fold m.
  assert (G : forall t st cb, Inv64 st cb ->
    Inv64 (fold_left (bpm_step p m) t st)
          (fold_left (fun st c => let '(col, best) := st in let col' := next_col c p col 0 0 in (col', Z.min best (last col' 0))) t cb)).
  { induction t0 as [|c t0 IH]; intros st cb H; [exact H|]. cbn [fold_left]. apply IH.
    destruct cb as [col best]. apply (step_inv st (col, best) c H). }
  specialize (G t _ _ init_inv).
  destruct (fold_left (bpm_step p m) t _) as [[[VP VN] diff] k].
  destruct (fold_left _ t (map _ _, Z.of_nat m)) as [col best].
  destruct G as (_ & _ & _ & _ & _ & E). exact E.
Qed.
End Text.
