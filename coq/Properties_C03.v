(* C03 - The alignment does not depend on the order of the input sequences.
   Statements only; proofs in SortProofs.v / OrderProofs.v. *)
From KV Require Import Base Params Sort SortProofs Weave Api ApiProofs OrderProofs.
From Coq Require Import Permutation Sorted.
Local Open Scope Z_scope.

(* the glibc merge-sort model returns a permutation, for every comparator *)
Theorem C03_sort_is_permutation : forall (cmp : srec -> srec -> Z) l, Permutation (msort cmp l) l.
Proof. intros. apply msort_perm. Qed.
Print Assumptions C03_sort_is_permutation.

(* Canonical order: two orders of the same records (pairwise distinguishable by
   (length, first 256 name bytes), which is what sort_by_len_name compares) sort to the same list. *)
Theorem C03_canonical_order_unique : forall l1 l2,
  Permutation l1 l2 -> pairwise_distinguishable l1 -> msort cmp_p l1 = msort cmp_p l2.
Proof. exact canonical_order_unique. Qed.
Print Assumptions C03_canonical_order_unique.

(* Main statement: whatever the core (guide tree + progressive alignment) computes from the
   canonically ordered codes, supplying the records in another order yields the same named rows,
   permuted; a run is rejected for one order iff it is rejected for the other. *)
Theorem C03_order_invariance : forall core bt ty gpo gpe tgpe recs1 recs2,
  Permutation recs1 recs2 ->
  pairwise_distinguishable (filter nonempty_p recs1) ->
  match kalign_run_model core bt ty gpo gpe tgpe recs1, kalign_run_model core bt ty gpo gpe tgpe recs2 with
  | Some o1, Some o2 => Permutation o1 o2
  | None, None => True
  | _, _ => False
  end.
Proof. exact order_invariance. Qed.
Print Assumptions C03_order_invariance.

(* The premise is about the first 256 bytes only: two different names that agree there are not
   distinguishable (recorded finding: the property text says "pairwise distinct names"). *)
Example C03_long_names_not_distinguishable :
  let n1 := repeat 65 256 ++ [66] in let n2 := repeat 65 256 ++ [67] in
  n1 <> n2 /\ strncmp 256 n1 n2 = 0.
Proof. split; [intro H; apply (f_equal (fun l => nth 256 l 0)) in H; vm_compute in H; discriminate | vm_compute; reflexivity]. Qed.

(* Non-vacuity *)
Example C03_nonvacuous :
  pairwise_distinguishable [([115;49], [65;67;71]); ([115;50], [65;67;71]); ([115;51], [65;67])].
Proof.
  unfold pairwise_distinguishable. repeat constructor; unfold distinguishable; vm_compute; intros; congruence.
Qed.
