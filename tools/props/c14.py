"""C14 - letter case and RNA/DNA spelling do not influence the alignment."""
import json
import gen
from props import weavecommon as wc

def respell(rng, s, kind):
    out = []
    for c in s:
        if kind == 'dna' and c in 'TtUu' and rng.chance(1, 2):
            c = {'T': 'U', 't': 'u', 'U': 'T', 'u': 't'}[c]
        if rng.chance(1, 2):
            c = c.swapcase()
        out.append(c)
    return ''.join(out)

def run(ck):
    ck.build(('omp',))
    ck.translate()
    ok = ck.prove()
    kvh = ck.harness('omp', 'kvh')
    model = ck.model()
    rng = ck.rng
    ck.rule = ('correspondence: internal codes (three alphabets) of original and respelled inputs, model vs implementation (prep); '
               'witness search: kalign() on an input and on a random respelling (case anywhere; T<->U for nucleotides), gap patterns must coincide and '
               'letters must be the respelled ones; all types. Non-trivial = respelling differs from the original and the alignment has a gap')
    cases = wc.make_cases(ck, 200 if ck.tier == 'quick' else 2500, small=True)
    lines, meta, plines = [], [], []
    for c in cases:
        seqs = [s for s in c['seqs'] if s]
        if len(seqs) < 2:
            continue
        # nucleotide inputs must stay inside A C G T U N so that both spellings are detected as nucleotide (C13 premise 1)
        if c['kind'] == 'dna':
            seqs = [''.join(ch if ch.upper() in 'ACGTUN' else 'N' for ch in s) for s in seqs]
        alt = [respell(rng, s, c['kind']) for s in seqs]
        a = dict(c, seqs=seqs); b = dict(c, seqs=alt)
        lines.append(wc.run_line(a, flags=32)); lines.append(wc.run_line(b, flags=32))
        meta.append((a, b))
        plines.append('prep ' + ' '.join('n%d:%s' % (i, gen.hexs(s)) for i, s in enumerate(seqs)))
        plines.append('prep ' + ' '.join('n%d:%s' % (i, gen.hexs(s)) for i, s in enumerate(alt)))
    plines = [l.replace('n%d:' % i, '%s:' % gen.hexs('n%d' % i)) for l in plines for i in [0]] if False else plines
    # names must be hex too
    def fixnames(l):
        parts = l.split(' ')
        out = [parts[0]]
        for p in parts[1:]:
            n, s = p.split(':')
            out.append('%s:%s' % (gen.hexs(n), s))
        return ' '.join(out)
    plines = [fixnames(l) for l in plines]
    dis, pi, pm = ck.correspond('Api.convert (codes of both spellings) vs convert_msa_to_internal', plines, kvh)
    # codes of the two spellings must coincide (model side of the theorem's premise, on the implementation's codes)
    code_diff = []
    for k in range(0, len(pi), 2):
        kind = meta[k // 2][0]['kind']
        def rel(line):
            f = dict(t.split('=', 1) for t in line.split() if '=' in t)
            return (f.get('ranks'), f.get('dna')) if kind == 'dna' else (f.get('ranks'), f.get('red'), f.get('amb'))
        if rel(pi[k]) != rel(pi[k + 1]):
            code_diff.append((plines[k], pi[k], pi[k + 1]))
    impl = ck.run_lines(kvh, lines, timeout=1200)
    ck.evaluations += len(lines)
    wit = []
    for k, (a, b) in enumerate(meta):
        ra, rb = impl[2 * k], impl[2 * k + 1]
        if not (ra.startswith('OK') and rb.startswith('OK')):
            if ra.startswith('OK') != rb.startswith('OK'):
                wit.append({'kind': 'accepted-vs-rejected', 'a': a, 'b': b, 'impl_a': ra[:200], 'impl_b': rb[:200]})
            continue
        rows_a = [bytes.fromhex(h).decode('latin-1') for h in ra.split('|')[0].split()[2].split(',')]
        rows_b = [bytes.fromhex(h).decode('latin-1') for h in rb.split('|')[0].split()[2].split(',')]
        pat = lambda rows: [''.join('-' if ch == '-' else 'x' for ch in r) for r in rows]
        if pat(rows_a) != pat(rows_b):
            wit.append({'kind': 'gap-pattern-differs', 'a': a, 'b': b, 'rows_a': rows_a, 'rows_b': rows_b})
        elif [r.replace('-', '') for r in rows_b] != b['seqs']:
            wit.append({'kind': 'letters-not-respelled', 'b': b, 'rows_b': rows_b})
        elif a['seqs'] != b['seqs'] and any('-' in r for r in rows_a):
            ck.nontriv({'a': a['seqs'], 't': a['type']})
    if meta:
        ck.sample({'original': meta[0][0]['seqs'], 'respelled': meta[0][1]['seqs'], 'implementation_original': impl[0][:200], 'implementation_respelled': impl[1][:200]})
    for w in wit[:3]:
        ck.violation('witness', w)
    if not wit:
        if not ok:
            ck.violation('proof', {'what_no_longer_checks': ck.proof['failed']}, nofail=True)
        elif dis:
            ln, x, y = dis[0]
            ck.violation('correspondence', {'what_no_longer_checks': 'correspondence of Api.convert with convert_msa_to_internal', 'first_disagreement': {'case': ln[:1500], 'implementation': x[:800], 'model': y[:800]}}, nofail=True)
        elif code_diff:
            ck.violation('premise', {'what_no_longer_checks': 'the implementation assigns different internal codes to the two spellings (premise of C14_respell_invariance)', 'case': code_diff[0][0][:1500]}, nofail=True)

def replay(ck, obj):
    print(json.dumps(obj, indent=1)[:4000])
    return 0
