#!/bin/bash
# Build kalign from /repo's *working tree* (uncommitted edits included) into
# /verif/.build/<content-hash>/ and print that directory.
# Variants: omp (gcc -O2 -mavx2 -fopenmp, hooks on), plain (no OpenMP, no AVX2, hooks on),
#           asan (clang -O1 ASan+UBSan, hooks on, no OpenMP), cli (the kalign binary, OpenMP, hooks on).
# Usage: build_repo.sh [variant...]   (default: omp)
set -e
REPO=${KV_REPO:-/repo}
VERIF=$(cd "$(dirname "$0")/.." && pwd)
BROOT=$VERIF/.build
mkdir -p "$BROOT"
exec 9>"$BROOT/.lock"; flock 9
HASH=$( (cd "$REPO" && find lib src tests CMakeLists.txt README.md -type f \( -name '*.c' -o -name '*.h' -o -name '*.in' -o -name '*.txt' -o -name '*.md' -o -name '*.cpp' \) -not -path 'tests/data/*' -print0 | sort -z | xargs -0 sha256sum) | sha256sum | cut -c1-16)
B=$BROOT/$HASH
VARIANTS="$@"
[ -z "$VARIANTS" ] && VARIANTS=omp
if [ ! -d "$B/src" ]; then
  mkdir -p "$B.tmp$$"
  rsync -a --delete --exclude 'tests/data' "$REPO/lib" "$REPO/src" "$REPO/tests" "$REPO/CMakeLists.txt" "$REPO/README.md" "$B.tmp$$/src/" 2>/dev/null || { mkdir -p "$B.tmp$$/src"; rsync -a --exclude 'tests/data' "$REPO/lib" "$REPO/src" "$REPO/tests" "$REPO/CMakeLists.txt" "$REPO/README.md" "$B.tmp$$/src/"; }
  VER=$(sed -n 's/^set(KALIGN_LIBRARY_VERSION_\(MAJOR\|MINOR\|PATCH\) \([0-9]*\)).*/\2/p' "$REPO/CMakeLists.txt" | paste -sd. -)
  mkdir -p "$B.tmp$$/gen/kalign"
  printf '#define KALIGN_PACKAGE_NAME "kalign"\n#define KALIGN_PACKAGE_VERSION "%s"\n' "$VER" > "$B.tmp$$/gen/version.h"
  echo "$VER" > "$B.tmp$$/gen/VERSION"
  mv "$B.tmp$$" "$B" 2>/dev/null || rm -rf "$B.tmp$$"
  # prune old builds, keep the 7 most recent
  # (never one that was used within the last two hours: another check may be running from it)
  ls -1dt "$BROOT"/*/ 2>/dev/null | tail -n +8 | while read -r old; do
    if [ -n "$(find "$old" -maxdepth 0 -mmin +120 2>/dev/null)" ]; then rm -rf "$old"; fi
  done
fi
touch "$B"
VER=$(cat "$B/gen/VERSION")
LIBSRCS="test tldevel tlmisc tlrng esl_stopwatch msa_alloc msa_op msa_io msa_misc msa_check msa_cmp msa_sort alphabet task bisectingKmeans sequence_distance bpm euclidean_dist pick_anchor aln_wrap aln_param aln_run aln_mem aln_setup aln_controller aln_seqseq aln_seqprofile aln_profileprofile weave_alignment"
build_lib() { # name cc flags...
  local name=$1; shift; local cc=$1; shift
  [ -f "$B/$name/libkalign.a" ] && return 0
  mkdir -p "$B/$name"
  ( cd "$B/$name"
    for f in $LIBSRCS; do echo $f; done | xargs -P 16 -I{} $cc "$@" -DKALIGN_VERIF -DKALIGN_PACKAGE_VERSION=\"$VER\" -I"$B/gen" -I"$B/src/lib/include" -I"$B/src/lib/src" -std=gnu11 -w -c "$B/src/lib/src/{}.c" -o {}.o
    rm -f libkalign.a.tmp; ar rcs libkalign.a.tmp *.o && mv libkalign.a.tmp libkalign.a )
}
for v in $VARIANTS; do
  case $v in
    omp)   build_lib omp gcc -O2 -g -mavx2 -DHAVE_AVX2 -DHAVE_OPENMP -fopenmp -fPIC >&2 ;;
    plain) build_lib plain gcc -O2 -g -fPIC >&2 ;;
    asan)  build_lib asan clang -O1 -g -fsanitize=address,undefined -fno-sanitize-recover=undefined -fno-omit-frame-pointer -mavx2 -DHAVE_AVX2 >&2 ;;
    cli)   build_lib omp gcc -O2 -g -mavx2 -DHAVE_AVX2 -DHAVE_OPENMP -fopenmp -fPIC >&2
           if [ ! -f "$B/omp/kalign" ]; then
             gcc -O2 -g -DHAVE_OPENMP -fopenmp -DKALIGN_VERIF -DKALIGN_PACKAGE_NAME=\"kalign\" -DKALIGN_PACKAGE_VERSION=\"$VER\" -I"$B/gen" -I"$B/src/lib/include" -I"$B/src/lib/src" -std=gnu11 -w "$B/src/src/run_kalign.c" "$B/src/src/parameters.c" "$B/omp/libkalign.a" -lm -o "$B/omp/kalign.tmp" >&2 && mv "$B/omp/kalign.tmp" "$B/omp/kalign"
           fi ;;
    plaincli) build_lib plain gcc -O2 -g -fPIC >&2
           if [ ! -f "$B/plain/kalign" ]; then
             gcc -O1 -g -DKALIGN_VERIF -DKALIGN_PACKAGE_NAME=\"kalign\" -DKALIGN_PACKAGE_VERSION=\"$VER\" -I"$B/gen" -I"$B/src/lib/include" -I"$B/src/lib/src" -std=gnu11 -w "$B/src/src/run_kalign.c" "$B/src/src/parameters.c" "$B/plain/libkalign.a" -lm -o "$B/plain/kalign.tmp" >&2 && mv "$B/plain/kalign.tmp" "$B/plain/kalign"
           fi ;;
    asancli) build_lib asan clang -O1 -g -fsanitize=address,undefined -fno-sanitize-recover=undefined -fno-omit-frame-pointer -mavx2 -DHAVE_AVX2 >&2
           if [ ! -f "$B/asan/kalign" ]; then
             clang -O1 -g -fsanitize=address,undefined -fno-sanitize-recover=undefined -DKALIGN_VERIF -DKALIGN_PACKAGE_NAME=\"kalign\" -DKALIGN_PACKAGE_VERSION=\"$VER\" -I"$B/gen" -I"$B/src/lib/include" -I"$B/src/lib/src" -std=gnu11 -w "$B/src/src/run_kalign.c" "$B/src/src/parameters.c" "$B/asan/libkalign.a" -lm -o "$B/asan/kalign.tmp" >&2 && mv "$B/asan/kalign.tmp" "$B/asan/kalign"
           fi ;;
    *) echo "unknown variant $v" >&2; exit 2 ;;
  esac
done
echo "$B"
