#!/usr/bin/env python3
"""Regenerates MANIFEST.json from the table below (kept here so that the manifest stays valid
and consistent while checks are added)."""
import json, os
V = os.path.dirname(os.path.dirname(os.path.abspath(__file__)))
ENGINE = 'coq-model+correspondence'
TRUST = ('Trusted: Coq 8.16.1 kernel + VM; the translator (harness/dump_tables.c, tools/translate.py); extraction (ExtrOcamlBasic only) and OCaml; '
         'the correspondence harness. Nothing in the C is verified directly: hand-modelled parts are tied by differential runs against the freshly built code. ')
CLAIMS = {
 'C01': dict(
   text='Theorems (all trees, all well-formed paths, all sequence sets, no size bound): update_gaps = column insertion; make_linear_sequence reproduces residues; '
        'add_gap_info_to_path_n expands every well-formed raw path to ops that fit both sides; the progressive assembly keeps every row\'s residues, gives equal row lengths and no all-gap column (C01_assembly_integrity). '
        'Tie: the weave model is replayed on the implementation-observed task list and raw paths (NODE_DONE hook) and compared per merge and on the final rows; the premises kpath_wfb/valid task list are monitored on every observed path/tree; '
        'extracted integrity_b is evaluated on the output of both entry points and all three formats.',
   note=TRUST + 'Layer 1 only: that the float DP kernels always emit well-formed paths and the tree builder a valid task list is a monitored premise (checked on every run of the correspondence), not yet a theorem. Rank-order restoration and name preservation are checked on the implementation output, not proved.',
   tech='Coq proof (induction over paths, merges and task lists) + parametric correspondence via hooks'),
 'C09': dict(
   text='Theorems C09_defaults/override/explicit_default/mismatch/type_words/cli_defaults over the model of aln_param_init and set_aln_type, for all type constants, both kinds and ALL binary32 bit patterns of the three penalties; '
        'the parameter tables inside the theorems are regenerated from the built library and README.md on every run; the hand-written switch/override logic is tied by an exhaustive correspondence over 3 kinds x 8 types x value set^3 and by CLI runs observed through the PARAMS hook.',
   note=TRUST + 'getopt_long_only/atof are exercised only by the CLI runs, not modelled. CorBLOSUM66_13plus, Gonnet250 and the RNA set have no second source in the repository: the reference is the committed snapshot coq/Snapshot.v.',
   tech='Coq proof over executable model + regenerated tables + exhaustive correspondence'),
 'C10': dict(
   text='Theorems for every sequence set, every valid continuation of a run (any guide tree, any fitting paths) and every block of rows inside one group: one merge applies one column insertion to all rows of a group (C10_merge_is_uniform) and the block, stripped of its all-gap columns, never changes again (C10_finished_blocks_are_preserved). '
        'Tie: merge_step replayed on the observed ops for every merge and compared with the member rows snapshotted by the NODE_DONE hook; extracted subalignment_b evaluated on every internal node of every run, threads 1..16.',
   note=TRUST + 'The premise "ops fit the two group widths" is monitored on every observed merge.',
   tech='Coq proof (induction over merges) + per-merge correspondence via hooks'),
}
REASON_PENDING = 'check under construction in this round (design in DESIGN.md section 5); not yet claimed'

def main():
    props = [json.loads(l) for l in open(os.path.join(V, 'properties.jsonl'))]
    man = {
     'version': 1,
     'setup_cmd': 'tools/setup.sh',
     'hooks': {'guard': 'KALIGN_VERIF',
               'enable': "tools/build_repo.sh compiles lib/src/*.c from /repo's working tree with -DKALIGN_VERIF (variants omp/plain/asan) into /verif/.build/<content-hash>/",
               'baseline_off_cmd': 'tools/baseline_off.sh', 'source_commits': ['34a9a85', '8f635f3'], 'add_only': True},
     'engines': [{'name': ENGINE, 'path': 'tools/check', 'serves_properties': sorted(CLAIMS),
                  'kind_free_text': 'Coq 8.16.1 theorems over an executable Gallina model (coq/), regenerated tables/skeleton (tools/translate.py, harness/dump_tables.c), extracted model (ocaml/) run against the freshly built library (harness/)'}],
     'checks': [], 'not_applicable': [],
     'notes': 'See DESIGN.md. known_findings.json lists recorded and fixed defects.'}
    for p in props:
        pid = p['id']
        if pid in CLAIMS:
            c = CLAIMS[pid]
            man['checks'].append({
              'property_id': pid, 'quick_cmd': 'tools/check %s quick' % pid, 'thorough_cmd': 'tools/check %s thorough' % pid,
              'evidence_file': 'evidence/%s.json' % pid, 'replay_cmd_template': 'tools/check %s --replay {path}' % pid, 'engine': ENGINE,
              'level_claimed': {'category': 'proof', 'text': c['text'], 'design_ref': 'DESIGN.md section 5 ' + pid},
              'level_note': c['note'], 'technique': c['tech']})
        else:
            man['not_applicable'].append({'property_id': pid, 'reason': REASON_PENDING})
    json.dump(man, open(os.path.join(V, 'MANIFEST.json'), 'w'), indent=1)

if __name__ == '__main__':
    main()
