#!/bin/bash
# Developer helper: confirm a seeded change (compiles, passes the pinned tests, demo fails with it and passes without)
# and run checks against it in a scratch worktree.  /repo itself is untouched.
# Usage: seed_eval.sh <diff> <demo.sh> <property id>...
set -u
P=$(readlink -f "$1"); DEMO=$(readlink -f "$2"); shift 2
WT=$(mktemp -d /var/tmp/kv_seed.XXXXXX); rmdir "$WT"
git -C /repo worktree add -q --detach "$WT" HEAD
trap 'git -C /repo worktree remove --force "$WT" >/dev/null 2>&1; rm -rf "$WT" "$KV_WORK" "$KV_EVID"' EXIT
echo "== demo on clean tree"; (cd "$(dirname "$DEMO")" && timeout 1200 bash "$DEMO" "$WT" >/dev/null 2>&1 </dev/null); echo "demo_clean_rc=$?"
git -C "$WT" apply "$P" || { echo "PATCH DOES NOT APPLY"; exit 2; }
echo "== build + ctest with the change"
( cmake -G Ninja -S "$WT" -B "$WT/_b" >/dev/null 2>&1 && cmake --build "$WT/_b" -j16 >/dev/null 2>&1 && echo build_ok && ctest --test-dir "$WT/_b" -j8 --timeout 900 2>&1 </dev/null | grep -E "tests passed|Failed|\*\*\*" )
rm -rf "$WT/_b"
echo "== demo on changed tree"; (cd "$(dirname "$DEMO")" && timeout 1200 bash "$DEMO" "$WT" >/dev/null 2>&1 </dev/null); echo "demo_mut_rc=$?"
rm -rf "$WT/_b"
cd "$(dirname "$0")/.."
export KV_EVID=$(mktemp -d /var/tmp/kv_evid.XXXXXX)
export KV_WORK=$(mktemp -d /var/tmp/kv_work.XXXXXX); cp -a coq ocaml "$KV_WORK"/
for id in "$@"; do
  echo "== check $id"
  KV_REPO="$WT" timeout 3000 tools/check "$id" quick 2>&1 | grep -E "VIOLATION|KNOWN" | head -5; echo "check_${id}_rc=${PIPESTATUS[0]}"
done
