(* Extraction of the executable model for the correspondence check.
   ExtrOcamlBasic only: bool, option, list, prod, unit, sumbool map to OCaml's; Z, N, positive,
   nat stay the extracted inductives.  No Extract Constant of ours. *)
From Coq Require Import Extraction ExtrOcamlBasic.
From KV Require Import Base Params ParamsProofs.
Extraction Language OCaml.
Set Extraction Optimize.
Extraction "../ocaml/kvmodel.ml"
  f32_ge0 f32_of_Z isalpha ispunct isspace iscntrl toupper
  init select set_aln_type cli_args p_gpo pset_defaults
  fits doc_params.
