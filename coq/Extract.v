(* Extraction of the executable model for the correspondence check.
   ExtrOcamlBasic only: bool, option, list, prod, unit, sumbool map to OCaml's; Z, N, positive,
   nat stay the extracted inductives.  No Extract Constant of ours. *)
From Coq Require Import Extraction ExtrOcamlBasic.
From KV Require Import Base Params ParamsProofs Weave WeaveProofs WeaveCheck.
Extraction Language OCaml.
Set Extraction Optimize.
Extraction "../ocaml/kvmodel.ml"
  f32_ge0 f32_of_Z isalpha ispunct isspace iscntrl toupper
  init select set_aln_type cli_args p_gpo pset_defaults
  fits doc_params
  expand update_gaps add_gap_info mirror_path make_seq merge_step init_wstate run_merges final_rows op_kind
  kpath_wfb ops_fitb integrity_b subalignment_b strip_allgap degap w_gaps w_sip.
