"""Shared campaign of C01 and C10: end-to-end runs with the NODE_DONE/SORTED hooks, the model's
weave layer replayed on the implementation-observed tasks and raw paths (parametric tie), and the
extracted property predicates evaluated on the implementation's own output."""
import os, tempfile, shutil
import gen

TYPES = {'dna': [0, 1, 2, 5], 'protein': [3, 4, 5]}

def make_cases(ck, n, small=True):
    rng = ck.rng
    cases = []
    for k in range(n):
        kind = 'dna' if rng.chance(3, 5) else 'protein'
        fam, seqs = gen.family(rng, kind, small=small)
        ty = rng.choice(TYPES[kind])
        pens = [gen.NG, gen.NG, gen.NG]
        if rng.chance(1, 3):
            for i in range(3):
                if rng.chance(1, 2):
                    pens[i] = gen.fbits(rng.choice([0.0, 0.5, 1.0, 3.0, 8.0, 20.0, 55.0, 100.0]))
        thr = rng.choice([1, 1, 2, 7, 16])
        # now and then an empty sequence (must be dropped from the output)
        if rng.chance(1, 12) and len(seqs) >= 3:
            seqs[rng.below(len(seqs))] = ''
        cases.append({'kind': kind, 'family': fam, 'seqs': seqs, 'type': ty, 'pens': pens, 'threads': thr})
        ck.count('family:' + fam); ck.count('kind:' + kind); ck.count('threads:%d' % thr)
        ck.count('nseq:%s' % ('2' if len(seqs) == 2 else '3-8' if len(seqs) <= 8 else '9+'))
    return cases

def run_line(c, flags=17):
    return 'run %d %d %d %d %d %d %s' % (flags, c['threads'], c['type'], c['pens'][0], c['pens'][1], c['pens'][2],
                                         ' '.join(gen.hexs(s) for s in c['seqs']))

def campaign(ck, cases):
    kvh = ck.harness('omp', 'kvh')
    model = ck.model()
    lines = [run_line(c) for c in cases]
    impl = ck.run_lines(kvh, lines, timeout=1200)
    mlines = ['weave_check %s %s' % (','.join(gen.hexs(s) for s in c['seqs']), o) for c, o in zip(cases, impl)]
    verdicts = ck.run_lines(model, mlines, timeout=1200)
    ck.evaluations += len(lines)
    res = []
    for c, o, v in zip(cases, impl, verdicts):
        d = dict(tok.split('=', 1) for tok in v.split() if '=' in tok)
        res.append((c, o, d, v))
    return res

def file_api_cases(ck, cases, nmax):
    """the same inputs through kalign_read_input + kalign_run + kalign_write_msa, all three formats;
    output parsed by the independent Python readers; returns list of (case, fmt, ok, detail)."""
    kvh = ck.harness('omp', 'kvh')
    model = ck.model()
    tmp = tempfile.mkdtemp(prefix='kv_fileapi_')
    out = []
    try:
        lines, meta = [], []
        for idx, c in enumerate(cases[:nmax]):
            seqs = [s for s in c['seqs']]
            names = gen.names_for(ck.rng, len(seqs))
            inp = os.path.join(tmp, 'in%d.fa' % idx)
            fmts = ('fasta', 'msf', 'clu')
            if idx % 6 == 4:
                # header lines longer than any fixed line buffer (around 4 KiB, 8 KiB and beyond): a FASTA name is the whole header
                # line; a reader that splits it would take the tail for residues.  FASTA output only (Clustal/MSF pad every line to
                # the longest name).
                names = list(names)
                for k in sorted(set([ck.rng.below(len(names)), ck.rng.below(len(names))])):
                    L = ck.rng.choice([ck.rng.range(4080, 4100), ck.rng.range(8180, 8200), ck.rng.range(12000, 14000)])
                    names[k] = names[k] + '_' + gen.rand_seq(ck.rng, 'ACDEFGHIKLMNPQRSTVWYacgt0123456789_', L)
                fmts = ('fasta',)
                ck.count('file api: header line of 4 KiB .. 14 KiB')
            text = gen.fasta(names, c.get('written', seqs), ck.rng.choice([60, 60, 7, 100]))
            if idx % 4 == 1:        # a last line without newline is still a line
                text = text.rstrip('\n'); ck.count('file api: input without final newline')
            open(inp, 'w').write(text)
            inputs, split = inp, False
            nonempty = [i for i, s in enumerate(seqs) if s]
            if idx % 5 == 2 and len(nonempty) >= 3 and 'written' not in c:
                # the same records given as two (or three) input files: rows must still come out in input order under their names
                cut = ck.rng.range(2, len(seqs) - 1)
                cuts = [0, cut] + ([ck.rng.range(cut + 1, len(seqs))] if len(seqs) - cut >= 2 and ck.rng.chance(1, 3) else []) + [len(seqs)]
                parts = []
                for pi in range(len(cuts) - 1):
                    pf = os.path.join(tmp, 'in%d_%d.fa' % (idx, pi))
                    open(pf, 'w').write(gen.fasta(names[cuts[pi]:cuts[pi + 1]], seqs[cuts[pi]:cuts[pi + 1]], ck.rng.choice([60, 7, 100])))
                    parts.append(pf)
                inputs, split = ' '.join(parts), True
                ck.count('file api: records split over %d input files' % len(parts))
            for fmt in fmts:
                outp = os.path.join(tmp, 'out%d.%s' % (idx, fmt))
                lines.append('runfile 0 %d %d %d %d %d %s %s %s' % (c['threads'], c['type'], c['pens'][0], c['pens'][1], c['pens'][2], fmt, outp, inputs))
                meta.append((c, fmt, outp, names, seqs, split))
        impl = ck.run_lines(kvh, lines, timeout=1200)
        ck.evaluations += len(lines)
        ilines, imeta = [], []
        for (c, fmt, outp, names, seqs, split), o in zip(meta, impl):
            if not o.startswith('OK') or not os.path.exists(outp):
                if split and o.startswith('FAIL'):
                    # a split set may be refused where the single file is accepted (kind decided per file; C04's recorded finding,
                    # and a first file must hold two records): the property speaks about accepted inputs only
                    ck.count('file api: split input not accepted (skipped)')
                    continue
                out.append((c, fmt, False, 'run failed: ' + o[:100], names))
                continue
            if os.path.getsize(outp) > (64 << 20) + 40 * sum(len(x) for x in seqs) * max(1, len(seqs)):
                # an alignment of n rows cannot be longer than n * (sum of the lengths) columns; a file far beyond that is not parsed
                out.append((c, fmt, False, 'output file of %d bytes for %d residues of input' % (os.path.getsize(outp), sum(len(x) for x in seqs)), names))
                continue
            text = open(outp, encoding='latin-1').read()
            if fmt == 'fasta':
                onames, rows = gen.parse_fasta(text)
            elif fmt == 'msf':
                _, onames, rows = gen.parse_msf(text)
            else:
                _, onames, rows = gen.parse_clustal(text)
            exp_names = [n for n, s in zip(names, seqs) if s]
            if onames != exp_names:
                out.append((c, fmt, False, 'names differ: %r vs %r' % ([x[:80] for x in onames[:4]], [x[:80] for x in exp_names[:4]]), [x[:300] for x in names]))
                continue
            ilines.append('integrity %s %s' % (','.join(gen.hexs(s) for s in seqs), ','.join(gen.hexs(r) for r in rows)))
            imeta.append((c, fmt, names))
        verd = ck.run_lines(model, ilines, timeout=600)
        for (c, fmt, names), v in zip(imeta, verd):
            out.append((c, fmt, v == 'ok', v, names))
    finally:
        shutil.rmtree(tmp, ignore_errors=True)
    return out


def late_punct_cases(ck, n):
    """> 50 sequences of unequal lengths with a stray gap / stop character only in records beyond the 50th
    (the aligned/unaligned decision once sampled the first 50 records only)"""
    rng = ck.rng
    out = []
    for k in range(n):
        kind = 'dna' if rng.chance(1, 2) else 'protein'
        alpha = gen.DNA if kind == 'dna' else gen.PROT
        m = rng.choice([52, 60, 70])
        root = gen.rand_seq(rng, alpha, rng.range(12, 30))
        seqs = [gen.mutate(rng, root, alpha, 10, 8) + ('WKW' if kind == 'protein' else '') for _ in range(m)]
        written = list(seqs)
        for j in range(m - rng.range(1, 3), m):
            p = rng.below(len(seqs[j]) + 1)
            written[j] = seqs[j][:p] + rng.choice(['-', '*', '.', '--']) + seqs[j][p:]
        out.append({'kind': kind, 'family': 'late-punct>50', 'seqs': seqs, 'written': written, 'type': 5, 'pens': [gen.NG, gen.NG, gen.NG], 'threads': rng.choice([1, 4])})
        ck.count('family:late-punct>50')
    return out
