(* C04 - The result depends only on names and residues, not on how they are presented.
   Statements only; proofs in FormatsProofs.v / DetectProofs.v / ApiProofs.v.
   Proved: (a) gaps and line wrapping do not influence what the reader core extracts (any cutting
   of a row into lines, any punctuation inside it); (b) the run is a function of (name, residues)
   records and the detected kind; (c) the detected kind depends only on the letter counts.
   The reader layouts of Clustal and MSF and the splitting over several inputs are decided by the
   correspondence of the reader model with msa_io.c on generated presentations and by comparing
   the implementation's results across presentations (DESIGN C04). *)
From KV Require Import Base FP Params Sort Detect DetectProofs Weave WeaveProofs Cmp Formats FormatsProofs Api.
Local Open Scope Z_scope.

(* (a) whatever gap characters are interspersed and however the row is wrapped, the residues read
   are the letters, in order *)
Theorem C04_residues_are_the_letters : forall chunks name,
  rr_res (fold_left feed_line chunks (empty_rec name)) = filter isalpha (concat chunks) /\
  rr_name (fold_left feed_line chunks (empty_rec name)) = name.
Proof.
  intros chunks name.
  destruct (feed_chunks_row chunks (empty_rec name) (empty_rec_wf name)) as (_ & _ & N & S).
  cbv zeta in *. split; [exact S|exact N].
Qed.
Print Assumptions C04_residues_are_the_letters.

(* (b) kalign_run starts by de-aligning: the model of the run receives only (name, residues) *)
Theorem C04_run_depends_on_records_only : forall core bt ty gpo gpe tgpe (m1 m2 : in_msa),
  map (fun r => (rr_name r, rr_res r)) (i_recs m1) = map (fun r => (rr_name r, rr_res r)) (i_recs m2) ->
  kalign_run_model core bt ty gpo gpe tgpe (map (fun r => (rr_name r, rr_res r)) (i_recs m1)) =
  kalign_run_model core bt ty gpo gpe tgpe (map (fun r => (rr_name r, rr_res r)) (i_recs m2)).
Proof. intros. f_equal. assumption. Qed.
Print Assumptions C04_run_depends_on_records_only.

(* (c) the kind decision ignores every non-letter entry of the histogram *)
Theorem C04_kind_ignores_non_letters : forall f1 f2,
  length f1 = length f2 ->
  (forall i, isalpha (Z.of_nat i) = true -> nth i f1 0 = nth i f2 0) ->
  detect_sums f1 = detect_sums f2.
Proof. exact detect_sums_letters_only. Qed.
Print Assumptions C04_kind_ignores_non_letters.
