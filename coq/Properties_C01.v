(* C01 - Alignment integrity: every input sequence is reproduced exactly.
   Statements only; proofs are in WeaveProofs.v / PathProofs.v / AssemblyProofs.v.
   Layer 1 (this file): for EVERY guide tree and EVERY well-formed raw path.  The premises
   (well-formed raw paths, valid task list) are evaluated on every path and tree the
   implementation produces during the correspondence runs (monitored premises, DESIGN C01). *)
From KV Require Import Base Weave WeaveProofs WeaveCheck PathProofs AssemblyProofs.
Local Open Scope nat_scope.

(* make_linear_sequence: deleting the gap characters of the row built from any gap vector gives
   back the residues. *)
Theorem C01_linear_row_reproduces_residues : forall res g,
  length g = S (length res) -> Forall (fun c => c <> dash) res -> degap (expand g res) = res.
Proof. exact degap_expand. Qed.
Print Assumptions C01_linear_row_reproduces_residues.

Theorem C01_linear_row_length : forall res g,
  length g = S (length res) -> length (expand g res) = length res + sum_nat g.
Proof. exact expand_length. Qed.
Print Assumptions C01_linear_row_length.

(* add_gap_info_to_path_n: a well-formed raw path expands to ops that consume every residue of
   side 1 and every residue of side 2 exactly once. *)
Theorem C01_path_expansion_fits : forall lb path,
  kpath_wfb lb path = true ->
  exists ops, add_gap_info lb path = Some ops /\
    ops_fit (map op_kind ops) (length path) (Z.to_nat lb).
Proof. exact expand_path_counts. Qed.
Print Assumptions C01_path_expansion_fits.

(* The progressive assembly.  For every set of non-empty, dash-free sequences and every task
   list that is valid for the evolving state: every row keeps exactly its residues; when one
   group remains all rows have one length and no column consists of gaps only. *)
Theorem C01_assembly_integrity : forall seqs,
  Forall (Forall (fun c => c <> dash)) seqs ->
  forall tasks,
  valid_runb seqs (st0 seqs) (seq 0 (length seqs)) tasks = true ->
  let final := run_from (st0 seqs) tasks in
  (forall i, i < length seqs -> degap (row_of seqs final i) = nth i seqs []) /\
  (forall r, act_final (seq 0 (length seqs)) tasks = [r] ->
     exists w, (forall i, i < length seqs -> length (row_of seqs final i) = w) /\
               (forall j, j < w -> exists i, i < length seqs /\ nth j (row_of seqs final i) dash <> dash)).
Proof. intros seqs H. exact (assembly_integrity seqs H). Qed.
Print Assumptions C01_assembly_integrity.

(* Non-vacuity: an observed run (see Properties_C10) meets the premises, and a well-formed raw
   path with leading/trailing/internal gaps exists. *)
Example C01_nonvacuous :
  kpath_wfb 14 [2;3;4;5;6;7;8;9;10;11;12;13;-1;-1;14]%Z = true /\
  add_gap_info 14 [2;3;4;5;6;7;8;9;10;11;12;13;-1;-1;14]%Z = Some [33;0;0;0;0;0;0;0;0;0;0;0;0;2;2;0]%Z /\
  kpath_wfb 6 [-1;1;3;-1;4]%Z = true /\
  add_gap_info 6 [-1;1;3;-1;4]%Z = Some [34;0;1;0;2;0;33;33]%Z.
Proof. vm_compute. repeat split; reflexivity. Qed.
