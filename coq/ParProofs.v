(* C02: proofs over Par.v. *)
From Coq Require Import List String Bool Arith Lia Permutation FunctionalExtensionality.
From KV Require Import Generated.Omp Par.
Import ListNotations.

(* ---- Part 1: the static check is sound for every trace of the body --------------------------------- *)
Section CheckProofs.
Variable critical : string -> bool.
Notation trace_ok := (trace_ok critical).
Notation absrun := (absrun critical).

Lemma trace_ok_app : forall t1 t2 c, trace_ok c (t1 ++ t2) = trace_ok c t1 && trace_ok (trace_out c t1) t2.
Proof.
  induction t1 as [|e t1 IH]; intros t2 c; simpl; [reflexivity|].
  destruct e; auto.
  - destruct (critical f && c); [reflexivity|apply IH].
  - destruct c; [reflexivity|apply IH].
Qed.

Lemma trace_out_app : forall t1 t2 c, trace_out c (t1 ++ t2) = trace_out (trace_out c t1) t2.
Proof. induction t1 as [|e t1 IH]; intros t2 c; simpl; [reflexivity|]. destruct e; auto. Qed.

Definition le (a b : bool) : Prop := a = true -> b = true.
Lemma le_refl a : le a a. Proof. intro H; exact H. Qed.
Lemma le_orb_l a b c : le a b -> le a (b || c). Proof. intros H E. rewrite (H E). reflexivity. Qed.
Lemma le_orb_r a b c : le a c -> le a (b || c). Proof. intros H E. rewrite (H E). apply orb_true_r. Qed.

(* soundness: if the abstract run from [out] succeeds with [o], then every trace of the body, monitored
   from any concrete flag below [out], is accepted, and (when the body does not return) ends with a
   concrete flag below [o] *)
Lemma absrun_sound : forall fuel l out o, absrun fuel out l = Some o ->
  forall tr b, runs l tr b -> forall oc, le oc out ->
  trace_ok oc tr = true /\ (b = false -> le (trace_out oc tr) o).
Proof.
  induction fuel as [|fu IH]; intros l out o A tr b R oc L; [discriminate|].
  destruct l as [|it r]; cbn [Par.absrun] in A.
  - inversion R; subst. inversion A; subst. split; [reflexivity|intros _; exact L].
  - destruct it as [f| |f| |body|body|s|s].
    + (* spawn *) inversion R; subst. simpl. eapply IH; eauto. intros _; reflexivity.
    + (* wait *) inversion R; subst. simpl. eapply IH; eauto. intro H; discriminate.
    + (* call *) inversion R; subst. simpl.
      destruct (critical f && out) eqn:C; [discriminate|].
      assert (critical f && oc = false) as ->.
      { destruct (critical f); [|reflexivity]. simpl in *. destruct oc; [rewrite (L eq_refl) in C; discriminate|reflexivity]. }
      eapply IH; eauto.
    + (* return *) inversion R; subst. destruct out; [discriminate|]. inversion A; subst. simpl.
      destruct oc; [specialize (L eq_refl); discriminate|]. split; [reflexivity|intro H; discriminate].
    + (* maybe *)
      destruct (absrun fu out body) as [o1|] eqn:A1; [|discriminate].
      inversion R; subst.
      * eapply IH; eauto. apply le_orb_l. exact L.
      * match goal with Hb : runs body ?t1 false, Hr : runs r ?t2 _ |- _ =>
          destruct (IH _ _ _ A1 _ _ Hb oc L) as [K1 K2]; specialize (K2 eq_refl);
          destruct (IH _ _ _ A _ _ Hr (trace_out oc t1) (le_orb_r _ _ _ K2)) as [K3 K4] end.
        rewrite trace_ok_app, K1, K3. split; [reflexivity|]. intro Hb'. rewrite trace_out_app. apply K4. exact Hb'.
      * match goal with Hb : runs body _ true |- _ => destruct (IH _ _ _ A1 _ _ Hb oc L) as [K1 _] end.
        split; [exact K1|intro H; discriminate].
    + (* loop *)
      destruct (absrun fu out body) as [o1|] eqn:A1; [|discriminate].
      destruct (absrun fu (out || o1) body) as [o2|] eqn:A2; [|discriminate].
      set (inv := out || o1 || o2) in *.
      (* one iteration from any flag below inv is accepted and ends below inv *)
      assert (STEP : forall t c, runs body t false -> le c inv -> trace_ok c t = true /\ le (trace_out c t) inv).
      { intros t c Rb Lc. destruct inv eqn:I.
        - destruct (out || o1) eqn:E.
          + destruct (IH _ _ _ A2 _ _ Rb c (fun _ => eq_refl)) as [K1 K2]. split; [exact K1|]. intros _. reflexivity.
          + apply orb_false_iff in E as [E1 E2]. subst out o1. simpl in A2. rewrite A1 in A2. inversion A2; subst o2.
            unfold inv in I. discriminate.
        - unfold inv in I. apply orb_false_iff in I as [I1 I3]. apply orb_false_iff in I1 as [I1 I2]. subst out o1 o2.
          destruct (IH _ _ _ A1 _ _ Rb c Lc) as [K1 K2]. split; [exact K1|]. apply K2. reflexivity. }
      assert (RET : forall t c, runs body t true -> le c inv -> trace_ok c t = true).
      { intros t c Rb Lc. destruct inv eqn:I.
        - destruct (out || o1) eqn:E.
          + destruct (IH _ _ _ A2 _ _ Rb c (fun _ => eq_refl)) as [K1 _]. exact K1.
          + apply orb_false_iff in E as [E1 E2]. subst out o1. simpl in A2. rewrite A1 in A2. inversion A2; subst o2.
            unfold inv in I. discriminate.
        - unfold inv in I. apply orb_false_iff in I as [I1 I3]. apply orb_false_iff in I1 as [I1 I2]. subst out o1 o2.
          destruct (IH _ _ _ A1 _ _ Rb c Lc) as [K1 _]. exact K1. }
      assert (L0 : le oc inv) by (unfold inv; apply le_orb_l, le_orb_l; exact L).
      clear L A1 A2. revert oc L0.
      remember (ILoop body :: r) as prog eqn:EP.
      induction R; try discriminate; inversion EP; subst; intros oc L0.
      * eapply IH; eauto.
      * destruct (STEP _ _ R1 L0) as [K1 K2].
        destruct (IHR2 eq_refl _ K2) as [K3 K4].
        rewrite trace_ok_app, K1, K3. split; [reflexivity|]. intro Hb. rewrite trace_out_app. apply K4. exact Hb.
      * split; [eapply RET; eauto|intro H; discriminate].
    + (* par *) inversion R; subst. eapply IH; eauto.
    + (* unknown *) discriminate.
Qed.

Theorem well_joined_sound : forall l, well_joined critical l = true ->
  forall tr b, runs l tr b -> Par.trace_ok critical false tr = true /\ (b = false -> trace_out false tr = false).
Proof.
  unfold well_joined. intros l W tr b R.
  destruct (absrun 2000 false l) as [[|]|] eqn:A; try discriminate.
  destruct (absrun_sound _ _ _ _ A _ _ R false (le_refl _)) as [K1 K2]. split; [exact K1|].
  intro Hb. specialize (K2 Hb). destruct (trace_out false tr); [specialize (K2 eq_refl); discriminate|reflexivity].
Qed.
End CheckProofs.

(* ---- Part 2: every schedule of an independent series-parallel program computes the same state ------------ *)
Section SPProofs.
Variable act state : Type.
Variable exec : act -> state -> state.
Variable indep : act -> act -> Prop.
Hypothesis indep_commute : forall a b s, indep a b -> exec b (exec a s) = exec a (exec b s).
Notation exec_list := (exec_list act state exec).

Lemma exec_list_app l1 l2 s : exec_list (l1 ++ l2) s = exec_list l2 (exec_list l1 s).
Proof. unfold Par.exec_list. apply fold_left_app. Qed.

Lemma exec_commute_list : forall l a s, (forall b, In b l -> indep b a) ->
  exec a (exec_list l s) = exec_list l (exec a s).
Proof.
  induction l as [|b l IH]; intros a s H; simpl; [reflexivity|].
  unfold Par.exec_list in *. simpl. rewrite IH by (intros; apply H; right; assumption).
  rewrite (indep_commute b a) by (apply H; left; reflexivity). reflexivity.
Qed.

Lemma shuffle_exec : forall l r m, shuffle act l r m ->
  (forall a b, In a l -> In b r -> indep a b) ->
  forall s, exec_list m s = exec_list (l ++ r) s.
Proof.
  intros l r m Sh. induction Sh as [|a l r m Sh IH|a l r m Sh IH]; intros I s.
  - reflexivity.
  - simpl. unfold Par.exec_list in *. simpl. apply IH. intros; apply I; [right|]; assumption.
  - (* a from the right branch runs first: commute it behind l *)
    unfold Par.exec_list in *. simpl. rewrite IH by (intros x y Hx Hy; apply I; [|right]; assumption).
    rewrite !fold_left_app. simpl. f_equal.
    change (fold_left (fun s0 a0 => exec a0 s0) l (exec a s)) with (Par.exec_list act state exec l (exec a s)).
    rewrite <- exec_commute_list by (intros b Hb; apply I; [assumption|left; reflexivity]). reflexivity.
Qed.

Lemma shuffle_perm : forall l r m, shuffle act l r m -> Permutation m (l ++ r).
Proof.
  intros l r m Sh. induction Sh; simpl.
  - constructor.
  - constructor. assumption.
  - etransitivity; [constructor; eassumption|]. apply Permutation_middle.
Qed.

Lemma lin_perm : forall t l, lin act t l -> Permutation l (flatten act t).
Proof.
  intros t l L. induction L; simpl.
  - constructor.
  - constructor. constructor.
  - apply Permutation_app; assumption.
  - etransitivity; [eapply shuffle_perm; eassumption|]. apply Permutation_app; assumption.
Qed.

Theorem sp_determinism : forall t, par_independent act indep t ->
  forall l, lin act t l -> forall s, exec_list l s = exec_list (flatten act t) s.
Proof.
  induction t as [|a|x IHx y IHy|x IHx y IHy]; intros P l L s; inversion L; subst; simpl in *.
  - reflexivity.
  - reflexivity.
  - destruct P as [Px Py]. rewrite !exec_list_app. rewrite (IHx Px _ H1). apply IHy; assumption.
  - destruct P as (Px & Py & I).
    rewrite (shuffle_exec _ _ _ H4).
    + rewrite !exec_list_app. rewrite (IHx Px _ H1). apply IHy; assumption.
    + intros a b Ha Hb. apply I.
      * eapply Permutation_in; [apply lin_perm; eassumption|assumption].
      * eapply Permutation_in; [apply lin_perm; eassumption|assumption].
Qed.
End SPProofs.

(* ---- Part 3: the guide tree ---------------------------------------------------------------------------------- *)
Section TreeProofs.
Variable cell : Type.
Variable combine : cell -> cell -> cell.
Notation exec_merge := (exec_merge cell combine).

Lemma indep_merge_commute : forall x y (s : store cell), indep_merge x y ->
  exec_merge y (exec_merge x s) = exec_merge x (exec_merge y s).
Proof.
  intros x y s (N1 & N2 & N3 & N4 & N5). apply functional_extensionality. intro k.
  unfold Par.exec_merge.
  destruct (Nat.eqb_spec k (m_c y)) as [Ey|Ey]; destruct (Nat.eqb_spec k (m_c x)) as [Ex|Ex].
  - exfalso. apply N1. transitivity k; [symmetry; assumption|assumption].
  - subst k. assert (Nat.eqb (m_a y) (m_c x) = false) as -> by (apply Nat.eqb_neq; congruence).
    assert (Nat.eqb (m_b y) (m_c x) = false) as -> by (apply Nat.eqb_neq; congruence). reflexivity.
  - subst k. assert (Nat.eqb (m_a x) (m_c y) = false) as -> by (apply Nat.eqb_neq; congruence).
    assert (Nat.eqb (m_b x) (m_c y) = false) as -> by (apply Nat.eqb_neq; congruence). reflexivity.
  - reflexivity.
Qed.

Lemma root_in_nodes t : In (root_id t) (nodes t).
Proof. destruct t; simpl; auto. Qed.

Lemma merges_inside : forall t m, In m (flatten merge (unfold t)) ->
  In (m_a m) (nodes t) /\ In (m_b m) (nodes t) /\ In (m_c m) (nodes t).
Proof.
  induction t as [i|c l IHl r IHr]; intros m H; simpl in H; [contradiction|].
  apply in_app_or in H as [H|H].
  - apply in_app_or in H as [H|H]; [destruct (IHl _ H) as (A & B & C)|destruct (IHr _ H) as (A & B & C)];
      simpl; repeat split; right; apply in_or_app; auto.
  - destruct H as [<-|[]]. simpl. repeat split; [right; apply in_or_app; left; apply root_in_nodes|
                                                 right; apply in_or_app; right; apply root_in_nodes|left; reflexivity].
Qed.

Lemma NoDup_app_disjoint {A} (l r : list A) : NoDup (l ++ r) -> forall x, In x l -> In x r -> False.
Proof.
  induction l as [|a l IH]; simpl; intros N x Hl Hr; [contradiction|].
  inversion N; subst. destruct Hl as [->|Hl].
  - apply H1. apply in_or_app. right. exact Hr.
  - eapply IH; eauto.
Qed.

Lemma NoDup_app_l {A} (l r : list A) : NoDup (l ++ r) -> NoDup l.
Proof. induction l as [|a l IH]; simpl; intro N; [constructor|]. inversion N; subst. constructor; [intro H; apply H1; apply in_or_app; auto|auto]. Qed.
Lemma NoDup_app_r {A} (l r : list A) : NoDup (l ++ r) -> NoDup r.
Proof. induction l as [|a l IH]; simpl; intro N; [assumption|]. inversion N; subst. auto. Qed.

Theorem unfold_independent : forall t, NoDup (nodes t) -> par_independent merge indep_merge (unfold t).
Proof.
  induction t as [i|c l IHl r IHr]; intro N; simpl; [exact I|].
  inversion N as [|? ? Nc N']; subst.
  split; [|exact I]. split; [apply IHl; eapply NoDup_app_l; eauto|].
  split; [apply IHr; eapply NoDup_app_r; eauto|].
  intros a b Ha Hb.
  destruct (merges_inside _ _ Ha) as (A1 & A2 & A3). destruct (merges_inside _ _ Hb) as (B1 & B2 & B3).
  pose proof (NoDup_app_disjoint _ _ N') as D.
  unfold indep_merge. repeat split; intro E.
  - apply (D (m_c a)); [assumption|rewrite E; assumption].
  - apply (D (m_c a)); [assumption|rewrite E; assumption].
  - apply (D (m_c a)); [assumption|rewrite E; assumption].
  - apply (D (m_c b)); [rewrite E; assumption|assumption].
  - apply (D (m_c b)); [rewrite E; assumption|assumption].
Qed.

(* every schedule of the progressive alignment of any guide tree computes what the serial order computes *)
Theorem tree_schedule_independent : forall t, NoDup (nodes t) ->
  forall l, lin merge (unfold t) l -> forall s : store cell,
  exec_list merge (store cell) exec_merge l s = exec_list merge (store cell) exec_merge (flatten merge (unfold t)) s.
Proof.
  intros t N l L s.
  apply (sp_determinism merge (store cell) exec_merge indep_merge); [|apply unfold_independent; exact N|exact L].
  intros a b s0 I. apply indep_merge_commute. exact I.
Qed.

(* in every schedule the merge of a node comes after every merge of its two subtrees *)
Theorem merge_after_children : forall c tl tr l, lin merge (unfold (Node c tl tr)) l ->
  exists l', l = l' ++ [mkMerge (root_id tl) (root_id tr) c] /\ lin merge (ParC (unfold tl) (unfold tr)) l'.
Proof.
  intros c tl tr l L. simpl in L. inversion L; subst. inversion H3; subst. eexists. split; [reflexivity|assumption].
Qed.
End TreeProofs.
