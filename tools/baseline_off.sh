#!/bin/bash
# Runs kalign's own pinned test suite with the verification guard OFF (a plain CMake build).
set -e
D=$(mktemp -d /var/tmp/kv_baseline.XXXXXX)
trap 'rm -rf "$D"' EXIT
cmake -G Ninja -S /repo -B "$D" >/dev/null
cmake --build "$D" -j16 >/dev/null
ctest --test-dir "$D" -j8 --timeout 900
