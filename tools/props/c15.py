"""C15 - written alignment files are self-consistent and correctly labelled."""
import json, os, re, tempfile, shutil
import gen
from props import fmtcommon as fc
from props.runner import FileRunner

def check_fasta(text, names, rows):
    lines = text.split('\n')
    if lines[-1] != '': return 'no final newline'
    lines = lines[:-1]
    i = 0
    for nm, row in zip(names, rows):
        if i >= len(lines) or lines[i] != '>' + nm: return 'header line of %r missing' % nm
        i += 1
        got = []
        while i < len(lines) and not lines[i].startswith('>'):
            got.append(lines[i]); i += 1
        if any(len(l) != 60 for l in got[:-1]) or not got or not (1 <= len(got[-1]) <= 60): return 'rows of %r not wrapped at 60 columns' % nm
        if ''.join(got) != row: return 'row of %r differs' % nm
    return None if i == len(lines) else 'trailing lines'

def check_blocks(body_lines, names, rows, alnlen):
    """body: blocks of one line per sequence, separated by blank lines"""
    blocks, cur = [], []
    for l in body_lines:
        if l.strip() == '':
            if cur: blocks.append(cur); cur = []
        else:
            cur.append(l)
    if cur: blocks.append(cur)
    nb = (alnlen + 59) // 60
    if len(blocks) != nb: return 'expected %d blocks, found %d' % (nb, len(blocks))
    acc = {n: '' for n in names}
    for b, blk in enumerate(blocks):
        if len(blk) != len(names): return 'block %d lists %d sequences, expected %d' % (b, len(blk), len(names))
        widths = set()
        for nm, l in zip(names, blk):
            if not l.startswith(nm[:256]): return 'block %d: line does not start with the name %r' % (b, nm)
            seg = l[len(nm[:256]):]
            if not seg.startswith(' '): return 'block %d: no blank after name' % b
            seg = seg.strip(' ')
            if len(seg) > 60 or len(seg) < 1: return 'block %d has %d columns' % (b, len(seg))
            widths.add(len(seg)); acc[nm] += seg
        if len(widths) != 1: return 'block %d rows of unequal length' % b
    for nm, row in zip(names, rows):
        if acc[nm] != row: return 'row of %r differs' % nm
    return None

def check_clu(text, names, rows):
    lines = text.split('\n')
    if not re.match(r'Kalign \(.*\) multiple sequence alignment$', lines[0]): return 'header line missing'
    if lines[1] != '': return 'no blank line after header'
    return check_blocks(lines[2:], names, rows, len(rows[0]))

def check_msf(text, names, rows, protein):
    lines = text.split('\n')
    want = '!!AA_MULTIPLE_ALIGNMENT 1.0' if protein else '!!NA_MULTIPLE_ALIGNMENT 1.0'
    if lines[0] != want: return 'type line is %r, expected %r' % (lines[0], want)
    hdr, hnames, hrows = gen.parse_msf(text)
    alnlen = len(rows[0])
    if hdr.get('msf_len') != alnlen: return 'MSF: declares length %r, alignment length is %d' % (hdr.get('msf_len'), alnlen)
    if hdr.get('type') != ('P' if protein else 'N'): return 'Type: %r' % hdr.get('type')
    mx = max(len(n[:256]) for n in names)
    if hdr['names'] != [n[:mx] for n in names]: return 'Name: lines differ'
    if any(l != alnlen for l in hdr['lens']): return 'Len: fields %r, alignment length %d' % (hdr['lens'][:3], alnlen)
    chks = [gen.gcg_checksum(r) for r in rows]
    if hdr['checks'] != chks: return 'per-row Check: %r, true checksums %r' % (hdr['checks'][:3], chks[:3])
    if hdr.get('check') != sum(chks) % 10000: return 'total Check: %r, expected %d' % (hdr.get('check'), sum(chks) % 10000)
    try:
        k = lines.index('//')
    except ValueError:
        return 'no // line'
    return check_blocks(lines[k + 1:], names, rows, alnlen)

def run(ck):
    ck.build(('omp',))
    ck.translate()
    ok = ck.prove()
    kvh = ck.harness('omp', 'kvh')
    model = ck.model()
    rng = ck.rng
    ck.rule = ('alignments (2..40 rows, widths 1..600 incl. 59/60/61/119/120/121, names of 1..200 characters incl. all-punctuation names, both kinds) written by '
               'kalign_write_msa in all three formats after read+finalise, and alignments produced by kalign_run; correspondence: written bytes, model vs '
               'implementation (date masked); witness: independent Python parsers check wrapping, headers, blocks, MSF length/checksums/type. '
               'Non-trivial = width > 60 or a name longer than 10 characters')
    tmp = tempfile.mkdtemp(prefix='kv_c15_')
    wit, dis = [], []
    try:
        N = 80 if ck.tier == 'quick' else 800
        ilines, mlines, meta = [], [], []
        ver = open(os.path.join(ck.bdir, 'gen', 'VERSION')).read().strip()
        for k in range(N):
            kind, names, rows = fc.gen_alignment(rng)
            if k % 40 == 1:     # wider than 4096 columns (buffer sizes of chunked writers): every format must still wrap at 60
                W = rng.choice([4097, 4156, 4396, 8200])
                base = gen.rand_seq(rng, gen.DNA, W)
                kind, names = 'dna', ['wide%d' % i for i in range(3)]
                rows = [base, base[:W // 2] + '-' * 7 + base[W // 2 + 7:], '-' * 5 + base[5:]]
                ck.count('alignments wider than 4096 columns')
            if k % 7 == 3:      # FASTA header lines longer than the 256-byte name field of the block writers
                names = ['%03d' % i + gen.rand_seq(rng, fc.NAMECH, rng.choice([252, 253, 254, 255, 258, 300, 400])) for i in range(len(names))]
                ck.count('names longer than 250')
            if k % 11 == 4:     # names are data, never format strings: conversion specifications inside them
                names = ['%s_%d_%s' % (nm[:10], i, t) for i, (nm, t) in enumerate(zip(names, ['95%identical', '%s%s%s', '100%d', '%n', '5%x_%c', '%%', '%5.2f', '%p%p', '%ld%%'] * 40))]     # kept unique
                ck.count('names containing % conversions')
            inp = os.path.join(tmp, 'a%d.fa' % k)
            open(inp, 'w').write(gen.fasta(names, rows, rng.choice([60, 60, 13, 1000])))
            # the MSF header line carries the base name of the output file: names near and beyond the 256-byte line buffer
            # of the writer (NAME_MAX is 255) must not cut the declared length, type or checksum off
            stem = 'i%d' % k
            if k % 9 == 5:
                stem = 'i%d_' % k + gen.rand_seq(rng, 'abcdefghijklmnopqrstuvwxyz0123456789_', rng.choice([150, 180, 186, 200, 230, 242]))
                ck.count('output file names of 150..245 bytes')
            for fmt in ('fasta', 'msf', 'clu'):
                oi = os.path.join(tmp, '%s.%s' % (stem, fmt)); om = os.path.join(tmp, 'm%d.%s' % (k, fmt))
                if k % 4 == 2:      # the output path already holds a longer file (an earlier, larger alignment): it must be replaced, not overlaid
                    open(oi, 'w').write(('>old%d\n' % k + 'ACDEFGHIKLMNPQRSTVWY' * 3 + '\n') * 4000)
                    ck.count('output path holds a longer file before the write')
                ilines.append('rewrite %s %s %s' % (inp, fmt, oi))
                mlines.append('rewrite %s %s %s %s %s' % (inp, fmt, om, gen.hexs(os.path.basename(oi)), gen.hexs(ver)))
                meta.append((kind, names, rows, fmt, oi, om))
            ck.count('kind:' + kind); ck.count('width:%s' % ('<60' if len(rows[0]) < 60 else '60k' if len(rows[0]) % 60 == 0 else '>60'))
            if len(rows[0]) > 60 or max(len(n) for n in names) > 10:
                ck.nontriv({'n': names[:3], 'r': rows[:2]})
        impl = ck.run_lines(kvh, ilines, timeout=900)
        mod = ck.run_lines(model, mlines, timeout=900)
        ck.evaluations += len(ilines)
        for (kind, names, rows, fmt, oi, om), ri, rm in zip(meta, impl, mod):
            ti, tm = fc.read_text(oi), fc.read_text(om)
            if ri != rm or (ti is not None and fc.mask_date(ti) != tm):
                dis.append((fmt, names[:3], ri, rm))
            if not ri.startswith('OK') or ti is None:
                wit.append({'kind': 'write-failed', 'format': fmt, 'names': names, 'rows': rows, 'implementation': ri})
                continue
            err = check_fasta(ti, names, rows) if fmt == 'fasta' else check_clu(ti, names, rows) if fmt == 'clu' else check_msf(ti, names, rows, kind == 'protein')
            if err:
                wit.append({'kind': 'malformed-' + fmt, 'problem': err, 'names': names, 'rows': rows, 'file': ti[:3000]})
        ck.corr['Formats writers (bytes) vs msa_io.c'] = {'cases': len(ilines), 'disagreements': len(dis)}
        ck.sample({'names': meta[1][1][:3], 'rows': [r[:80] for r in meta[1][2][:3]], 'format': meta[1][3], 'written': (fc.read_text(meta[1][4]) or '')[:400]})
        # alignments produced by kalign_run, MSF: protein must be labelled protein
        fr = FileRunner(ck)
        try:
            jobs = []
            for k in range(16 if ck.tier == 'quick' else 150):
                kind = 'protein' if k % 2 else 'dna'
                fam, seqs = gen.family(rng, kind, small=True)
                seqs = [s for s in seqs if s]
                if len(seqs) < 2: continue
                names = fc.gen_names(rng, len(seqs))
                fmt = rng.choice(['msf', 'msf', 'clu', 'fasta'])
                if k % 4 == 3 and len(seqs) >= 3:     # header-only records in the middle of the input: dropped, the rest written as usual
                    allnames = names[:1] + ['empty_a', 'empty_b'] + names[1:]
                    allseqs = seqs[:1] + ['', ''] + seqs[1:]
                    fmt = rng.choice(['msf', 'clu'])
                    ck.count('inputs with header-only records')
                    jobs.append((kind, names, seqs, fmt, fr.add([gen.fasta(allnames, allseqs)], fmt, 2, 5)))
                    continue
                jobs.append((kind, names, seqs, fmt, fr.add([gen.fasta(names, seqs)], fmt, 2, 5)))
            res = fr.run()
            for kind, names, seqs, fmt, j in jobs:
                r = res[j]
                if r['text'] is None:
                    wit.append({'kind': 'run-failed', 'status': r['status'][:200], 'seqs': seqs}); continue
                if fmt == 'msf':
                    hdr, hn, hr = gen.parse_msf(r['text'])
                    err = check_msf(r['text'], names, hr, kind == 'protein') if len(hr) == len(names) else 'row count'
                elif fmt == 'clu':
                    _, hn, hr = gen.parse_clustal(r['text']); err = check_clu(r['text'], names, hr) if len(hr) == len(names) else 'row count'
                else:
                    hn, hr = gen.parse_fasta(r['text']); err = check_fasta(r['text'], names, hr) if len(hr) == len(names) else 'row count'
                if err:
                    wit.append({'kind': 'malformed-%s-after-run' % fmt, 'problem': err, 'sequence_kind': kind, 'names': names, 'file': r['text'][:3000]})
            ck.count('files written after kalign_run', len(jobs))
        finally:
            fr.close()
    finally:
        shutil.rmtree(tmp, ignore_errors=True)
    seen = {}
    for w in wit:
        seen[w['kind']] = seen.get(w['kind'], 0) + 1
        if seen[w['kind']] <= 2:
            ck.violation('witness', w)
    if not wit:
        if not ok:
            ck.violation('proof', {'what_no_longer_checks': ck.proof['failed']}, nofail=True)
        elif dis:
            ck.violation('correspondence', {'what_no_longer_checks': 'correspondence of Formats writers with msa_io.c (written bytes)', 'first_disagreement': {'format': dis[0][0], 'names': dis[0][1], 'implementation': dis[0][2], 'model': dis[0][3]}, 'disagreements': len(dis)}, nofail=True)

def replay(ck, obj):
    print(json.dumps(obj, indent=1)[:5000])
    return 0
