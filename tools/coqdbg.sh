#!/bin/bash
# debug helper: coqdbg.sh File.v LINE  -> shows the goal just before LINE (copy in /tmp, never in the development)
F=$1; N=$2
mkdir -p /tmp/coqdbg
sed "${N}s/.*/  Show. admit./" "$F" | head -n $N > /tmp/coqdbg/D.v
echo "Admitted." >> /tmp/coqdbg/D.v
cd "$(dirname "$F")" && timeout 120 coqc -Q . KV -o /tmp/coqdbg/D.vo /tmp/coqdbg/D.v 2>&1 | tail -${3:-40}
